package main

// Callee summaries by in-place state merging (DESIGN §2.4, A.5).
// A call to a function marked "summarise" is explored exhaustively on the spot,
// under the current path condition, with its own local decision log. The local
// paths are grouped by their non-scalar outcome (which error / panic), the outer
// run forks once per group, and inside a group every scalar output (return
// values and the cells reachable from pointer arguments) becomes one ite term.
// The callee's real SSA is executed; nothing is assumed about it except that its
// only side effects go through its pointer arguments (stores to globals, map
// updates, channel operations and goroutine creation inside a summarised callee
// abort the check as inconclusive).

import (
	"fmt"
	"go/types"
	"strings"

	"golang.org/x/tools/go/ssa"
)

type subCtx struct {
	prefix  []int
	log     []Decision
	newAlts [][]int
	conds   []*Term
}

var defaultSummarise = []string{
	"(*" + modulePath + "/spice.Melange).Supply",
	"(*" + modulePath + "/spice.Melange).Drain",
	"(*" + modulePath + "/spice.Melange).Empty",
	modulePath + "/spice.Transfer",
	modulePath + "/spice.New",
	modulePath + "/accountant.pourFunds",
	modulePath + "/accountant.checkHasSufficientfunds",
	"(" + modulePath + "/transaction.Transaction).IsSpiceTransfer",
	"(" + modulePath + "/transaction.Transaction).IsContract",
	"(" + modulePath + "/transaction.Transaction).IsEmpty",
}

type subOutcome struct {
	cond     *Term
	ret      Value
	cells    []Value
	key      string
	panicked bool
	panicVal Value
	panicMsg string
}

type savedCell struct {
	p   Ptr
	t   types.Type
	val Value
}

func scalarOnly(t types.Type) bool {
	switch u := t.Underlying().(type) {
	case *types.Basic:
		return u.Info()&(types.IsBoolean|types.IsInteger|types.IsString|types.IsFloat) != 0
	case *types.Struct:
		for i := 0; i < u.NumFields(); i++ {
			if !scalarOnly(u.Field(i).Type()) {
				return false
			}
		}
		return true
	case *types.Array:
		return scalarOnly(u.Elem())
	}
	return false
}

// shapeKey describes the non-mergeable part of a value.
func shapeKey(v Value, t types.Type, sb *strings.Builder, depth int) {
	if depth > 6 {
		sb.WriteString("…")
		return
	}
	switch x := v.(type) {
	case nil:
		sb.WriteString("nil")
	case bool, int64, float64, *Term:
		sb.WriteString("s")
	case string:
		sb.WriteString("s")
	case *SymStr:
		sb.WriteString("s")
	case Struct:
		sb.WriteString("{")
		for _, f := range x {
			shapeKey(f, nil, sb, depth+1)
			sb.WriteString(",")
		}
		sb.WriteString("}")
	case Array:
		fmt.Fprintf(sb, "[%d]", len(x))
	case Tuple:
		sb.WriteString("(")
		for _, f := range x {
			shapeKey(f, nil, sb, depth+1)
			sb.WriteString(",")
		}
		sb.WriteString(")")
	case Iface:
		if x.t == nil {
			sb.WriteString("I:nil")
			return
		}
		sb.WriteString("I:" + x.t.String() + ":")
		shapeKey(x.v, x.t, sb, depth+1)
	case Ptr:
		if x == nil {
			sb.WriteString("P:nil")
			return
		}
		sb.WriteString("P:")
		shapeKeyDeep(*x, sb, depth+1)
	case Slice:
		fmt.Fprintf(sb, "S:%v", x.ln)
		if n, ok := x.ln.(int64); ok && n <= 4 {
			for i := int64(0); i < n; i++ {
				shapeKeyDeep(x.a[i], sb, depth+1)
			}
		}
	case ZVal:
		sb.WriteString("z")
	default:
		fmt.Fprintf(sb, "%T", v)
	}
}

// shapeKeyDeep includes concrete strings (error texts distinguish sentinels).
func shapeKeyDeep(v Value, sb *strings.Builder, depth int) {
	switch x := v.(type) {
	case string:
		sb.WriteString("\"" + x + "\"")
	case Struct:
		sb.WriteString("{")
		for _, f := range x {
			shapeKeyDeep(f, sb, depth+1)
			sb.WriteString(",")
		}
		sb.WriteString("}")
	default:
		shapeKey(v, nil, sb, depth)
	}
}

func (r *Run) ctx() *subCtx {
	if n := len(r.ctxs); n > 0 {
		return r.ctxs[n-1]
	}
	return nil
}

// pushScope/popScopeP keep the printer's definition table in step with the solver's scopes.
func (r *Run) pushScope() {
	r.flushDefs()
	r.sol.Send("(push)")
	r.pcHashStack = append(r.pcHashStack, r.pcHash)
	r.printer.marks = append(r.printer.marks, len(r.printer.order))
}

func (r *Run) popScopeP() {
	r.printer.out.Reset()
	r.sol.Send("(pop)")
	r.pcHash = r.pcHashStack[len(r.pcHashStack)-1]
	r.pcHashStack = r.pcHashStack[:len(r.pcHashStack)-1]
	m := r.printer.marks[len(r.printer.marks)-1]
	r.printer.marks = r.printer.marks[:len(r.printer.marks)-1]
	for _, id := range r.printer.order[m:] {
		delete(r.printer.defined, id)
	}
	r.printer.order = r.printer.order[:m]
}

// mergeTyped builds one value from per-path values under exclusive conditions.
func (r *Run) mergeTyped(t types.Type, conds []*Term, vals []Value) Value {
	if len(vals) == 1 {
		return vals[0]
	}
	if t != nil {
		switch u := t.Underlying().(type) {
		case *types.Struct:
			first, ok := vals[0].(Struct)
			if ok && !isZ(t) {
				out := make(Struct, len(first))
				for i := range first {
					fv := make([]Value, len(vals))
					for j, v := range vals {
						fv[j] = v.(Struct)[i]
					}
					out[i] = r.mergeTyped(u.Field(i).Type(), conds, fv)
				}
				return out
			}
		case *types.Array:
			first, ok := vals[0].(Array)
			if ok {
				out := make(Array, len(first))
				for i := range first {
					fv := make([]Value, len(vals))
					for j, v := range vals {
						fv[j] = v.(Array)[i]
					}
					out[i] = r.mergeTyped(u.Elem(), conds, fv)
				}
				return out
			}
		case *types.Tuple:
			first := vals[0].(Tuple)
			out := make(Tuple, len(first))
			for i := range first {
				fv := make([]Value, len(vals))
				for j, v := range vals {
					fv[j] = v.(Tuple)[i]
				}
				out[i] = r.mergeTyped(u.At(i).Type(), conds, fv)
			}
			return out
		}
	}
	// all equal?
	same := true
	for _, v := range vals[1:] {
		if eq, ok := safeEq(vals[0], v); !ok || eq != true {
			same = false
			break
		}
	}
	if same {
		return vals[0]
	}
	switch vals[0].(type) {
	case bool, int64, *Term:
		// scalar ite chain
		var acc *Term
		for i := len(vals) - 1; i >= 0; i-- {
			var vt *Term
			switch x := vals[i].(type) {
			case *Term:
				vt = x
			case bool:
				vt = mkBool(x)
			case int64:
				if t == nil {
					engineFail("summary merge: untyped integer")
				}
				vt = asTerm(x, t)
			default:
				engineFail("summary merge: mixed kinds %T", vals[i])
			}
			if acc == nil {
				acc = vt
			} else {
				acc = tIte(conds[i], vt, acc)
			}
		}
		return termToValue(acc)
	case ZVal:
		var acc *Term
		for i := len(vals) - 1; i >= 0; i-- {
			vt := vals[i].(ZVal).t
			if acc == nil {
				acc = vt
			} else {
				acc = tIte(conds[i], vt, acc)
			}
		}
		return ZVal{acc}
	}
	// non-scalar and not identical: the group key guarantees the same shape; keep the first path's object
	return vals[0]
}

func safeEq(a, b Value) (res Value, ok bool) {
	defer func() {
		if recover() != nil {
			res, ok = nil, false
		}
	}()
	return eqValues(a, b), true
}

// summarisedCall explores fn locally and continues the outer run once per outcome group.
func (r *Run) summarisedCall(g *G, fr *Frame, fn *ssa.Function, args []Value, env []Value, retSlot int) {
	sig := fn.Signature
	// cells reachable through pointer arguments (one level, scalar aggregates only)
	var cells []savedCell
	for i, a := range args {
		p, ok := a.(Ptr)
		if !ok || p == nil {
			continue
		}
		var pt types.Type
		if i < len(fn.Params) {
			pt = fn.Params[i].Type()
		}
		ptr, ok := pt.Underlying().(*types.Pointer)
		if !ok {
			continue
		}
		if !scalarOnly(ptr.Elem()) {
			engineFail("summarised callee %s has a pointer argument to a non-scalar aggregate (%s)", fn, ptr.Elem())
		}
		cells = append(cells, savedCell{p: p, t: ptr.Elem(), val: copyVal(*p)})
	}
	var resT types.Type
	switch sig.Results().Len() {
	case 0:
	case 1:
		resT = sig.Results().At(0).Type()
	default:
		resT = sig.Results()
	}
	var outs []*subOutcome
	work := [][]int{{}}
	r.stats.Summaries++
	for len(work) > 0 {
		prefix := work[len(work)-1]
		work = work[:len(work)-1]
		ctx := &subCtx{prefix: prefix}
		r.ctxs = append(r.ctxs, ctx)
		r.pushScope()
		out := r.runLocal(fn, args, env)
		r.popScopeP()
		r.ctxs = r.ctxs[:len(r.ctxs)-1]
		if out != nil {
			c := tTrue
			for _, x := range ctx.conds {
				c = tAnd(c, x)
			}
			out.cond = c
			for _, sc := range cells {
				out.cells = append(out.cells, copyVal(*sc.p))
			}
			var sb strings.Builder
			if out.panicked {
				sb.WriteString("panic:" + out.panicMsg)
			} else {
				shapeKey(out.ret, resT, &sb, 0)
			}
			out.key = sb.String()
			outs = append(outs, out)
		}
		for _, sc := range cells {
			storeVal(sc.p, sc.val)
		}
		work = append(work, ctx.newAlts...)
		if len(outs) > 4096 {
			engineFail("summary of %s exceeds 4096 local paths", fn)
		}
	}
	if len(outs) == 0 {
		panic(abortRun{"summarised callee has no feasible path"})
	}
	// group by key in order of first appearance
	var keys []string
	groups := map[string][]*subOutcome{}
	for _, o := range outs {
		if _, ok := groups[o.key]; !ok {
			keys = append(keys, o.key)
		}
		groups[o.key] = append(groups[o.key], o)
	}
	k := 0
	if len(keys) > 1 {
		k = r.decide("summary:"+fn.Name(), len(keys), func(i int) *Term {
			c := tFalse
			for _, o := range groups[keys[i]] {
				c = tOr(c, o.cond)
			}
			return c
		}, r.curPosPrev(g))
	}
	grp := groups[keys[k]]
	conds := make([]*Term, len(grp))
	for i, o := range grp {
		conds[i] = o.cond
	}
	for ci, sc := range cells {
		vals := make([]Value, len(grp))
		for i, o := range grp {
			vals[i] = o.cells[ci]
		}
		storeVal(sc.p, r.mergeTyped(sc.t, conds, vals))
	}
	if grp[0].panicked {
		r.panicSite = grp[0].panicMsg
		r.goPanic(g, grp[0].panicVal, grp[0].panicMsg)
		return
	}
	if retSlot >= 0 && fr != nil {
		vals := make([]Value, len(grp))
		for i, o := range grp {
			vals[i] = o.ret
		}
		fr.env[retSlot] = r.mergeTyped(resT, conds, vals)
	}
}

// runLocal executes fn to completion on a private goroutine under the top sub-context.
func (r *Run) runLocal(fn *ssa.Function, args []Value, env []Value) (out *subOutcome) {
	g := &G{id: -2, held: map[interface{}]int{}}
	holder := &Frame{fn: fn, info: &fnInfo{slots: map[ssa.Value]int{}, n: 1}, env: make([]Value, 1), block: &ssa.BasicBlock{}, retSlot: -1}
	g.stack = []*Frame{holder}
	saved := r.cur
	r.cur = g
	r.localDepth++
	defer func() {
		r.cur = saved
		r.localDepth--
		if x := recover(); x != nil {
			if a, ok := x.(abortRun); ok && strings.HasPrefix(a.reason, "no feasible alternative") {
				out = nil
				return
			}
			panic(x)
		}
	}()
	cargs := make([]Value, len(args))
	for i, a := range args {
		cargs[i] = copyVal(a)
	}
	r.pushFrame(g, fn, cargs, env, 0)
	for len(g.stack) > 1 {
		if g.state == GBlocked {
			engineFail("summarised callee %s blocked", fn)
		}
		r.step(g)
		if g.panicVal != nil && len(g.stack) == 1 {
			return &subOutcome{panicked: true, panicVal: *g.panicVal, panicMsg: g.panicMsg}
		}
	}
	return &subOutcome{ret: holder.env[0]}
}
