package main

// Ideal codec for the msgpack pair (vmihailenco Marshal / shamaton Unmarshal),
// DESIGN §2.6 and §4: Unmarshal(Marshal(x)) = x (minus fields tagged msgpack:"-"),
// anything else is an error. This is exactly the msgpack half of C19 and is ASSUMED.

import (
	"go/types"
	"reflect"
)

type codecToken struct {
	t types.Type
	v Value
}

func dropUnencoded(v Value, t types.Type) Value {
	switch u := t.Underlying().(type) {
	case *types.Struct:
		s, ok := v.(Struct)
		if !ok {
			return v
		}
		c := make(Struct, len(s))
		for i := range s {
			tag := reflect.StructTag(u.Tag(i)).Get("msgpack")
			if tag == "-" {
				c[i] = zero(u.Field(i).Type())
			} else {
				c[i] = dropUnencoded(s[i], u.Field(i).Type())
			}
		}
		return c
	case *types.Array:
		a, ok := v.(Array)
		if !ok {
			return v
		}
		c := make(Array, len(a))
		for i := range a {
			c[i] = dropUnencoded(a[i], u.Elem())
		}
		return c
	case *types.Slice:
		s, ok := v.(Slice)
		if !ok || s.a == nil {
			return v
		}
		// deep copy so the stored value is immutable
		n := len(s.a)
		na := make([]Value, n)
		for i := 0; i < n; i++ {
			na[i] = copyVal(s.a[i])
		}
		return Slice{a: na, ln: s.ln, cp: s.cp}
	}
	return copyVal(v)
}

func init() {
	intrinsics["github.com/vmihailenco/msgpack.Marshal"] = func(r *Run, g *G, a []Value) (Value, action) {
		var iv Iface
		switch x := a[0].(type) {
		case Iface:
			iv = x
		case Slice:
			n, _ := x.ln.(int64)
			if n != 1 {
				engineFail("msgpack.Marshal model: exactly one value expected")
			}
			iv = x.a[0].(Iface)
		default:
			engineFail("msgpack.Marshal model: argument %T", a[0])
		}
		t, v := iv.t, iv.v
		if pt, ok := t.Underlying().(*types.Pointer); ok {
			p := v.(Ptr)
			if p == nil {
				return Tuple{Slice{ln: int64(0), cp: int64(0)}, Iface{}}, actDone
			}
			t, v = pt.Elem(), loadVal(p)
		}
		tok := codecToken{t: t, v: dropUnencoded(v, t)}
		return Tuple{Slice{a: []Value{tok}, ln: int64(1), cp: int64(1)}, Iface{}}, actDone
	}
	intrinsics["github.com/shamaton/msgpack/v2.Unmarshal"] = func(r *Run, g *G, a []Value) (Value, action) {
		data := a[0].(Slice)
		dst := a[1].(Iface)
		errv := r.codecError()
		n, ok := data.ln.(int64)
		if !ok || n != 1 {
			return errv, actDone
		}
		tok, ok := data.a[0].(codecToken)
		if !ok {
			return errv, actDone
		}
		pt, ok := dst.t.Underlying().(*types.Pointer)
		if !ok || !types.Identical(pt.Elem(), tok.t) {
			return errv, actDone
		}
		p := dst.v.(Ptr)
		if p == nil {
			return errv, actDone
		}
		storeVal(p, dropUnencoded(tok.v, tok.t))
		return Iface{}, actDone
	}
}

// codecError returns a fresh non-nil error value (an *errors.errorString).
func (r *Run) codecError() Value {
	ep := r.eng.pkgs["errors"]
	if ep == nil {
		engineFail("package errors not loaded")
	}
	res, ok := r.callSync(&Closure{fn: ep.Func("New")}, []Value{"verif: ideal codec rejects this input"})
	if !ok {
		engineFail("errors.New failed")
	}
	return res
}
