package main

// Maps, range iterators and Go builtins.

import (
	"fmt"
	"go/types"
	"math/big"
	"strings"
	"unicode/utf8"

	"golang.org/x/tools/go/ssa"
)

// mapFind returns the entry for key, forking over candidate entries when the
// comparison is symbolic (DESIGN §2.2: no symbolic pointers).
func (r *Run) mapFind(m *MapObj, key Value, pos string) *MapEntry {
	var sb strings.Builder
	if !m.symbolic && keyString(key, &sb) {
		if i, ok := m.index[sb.String()]; ok && m.entries[i].live {
			return m.entries[i]
		}
		return nil
	}
	// symbolic comparison: candidates are live entries whose equality is not constantly false
	var cands []*MapEntry
	var conds []*Term
	for _, e := range m.entries {
		if !e.live {
			continue
		}
		eq := eqValues(e.key, key)
		if b, ok := eq.(bool); ok {
			if b {
				// definitely this entry (given earlier ones were excluded)
				cands = append(cands, e)
				conds = append(conds, tTrue)
				break
			}
			continue
		}
		cands = append(cands, e)
		conds = append(conds, eq.(*Term))
	}
	if len(cands) == 0 {
		return nil
	}
	// alternatives: entry i matches (and no earlier candidate does) ... or none
	n := len(cands) + 1
	k := r.decide("mapkey", n, func(i int) *Term {
		if i < len(cands) {
			c := conds[i]
			for j := 0; j < i; j++ {
				c = tAnd(c, tNot(conds[j]))
			}
			return c
		}
		c := tTrue
		for j := range conds {
			c = tAnd(c, tNot(conds[j]))
		}
		return c
	}, pos)
	if k < len(cands) {
		return cands[k]
	}
	return nil
}

func (r *Run) mapSet(m *MapObj, key, val Value) {
	e := r.mapFind(m, key, "mapset")
	if e != nil {
		e.val = val
		return
	}
	ne := &MapEntry{key: key, val: val, live: true}
	var sb strings.Builder
	if keyString(key, &sb) {
		m.index[sb.String()] = len(m.entries)
	} else {
		m.symbolic = true
	}
	m.entries = append(m.entries, ne)
	m.nlive++
}

func (r *Run) mapDelete(m *MapObj, key Value) {
	if m == nil {
		return
	}
	e := r.mapFind(m, key, "mapdelete")
	if e == nil {
		return
	}
	e.live = false
	m.nlive--
	var sb strings.Builder
	if keyString(e.key, &sb) {
		delete(m.index, sb.String())
	}
}

func (r *Run) execLookup(g *G, fr *Frame, x *ssa.Lookup) bool {
	base := r.get(fr, x.X)
	idx := r.get(fr, x.Index)
	switch b := base.(type) {
	case *MapObj:
		var val Value
		found := false
		if b != nil {
			r.access(g, b, false, x)
			if e := r.mapFind(b, idx, r.pos(fr, x)); e != nil {
				val, found = copyVal(e.val), true
			}
		}
		if !found {
			val = zero(x.X.Type().Underlying().(*types.Map).Elem())
		}
		if x.CommaOk {
			r.set(fr, x, Tuple{val, found})
		} else {
			r.set(fr, x, val)
		}
	case string:
		i, _ := r.concreteIndex(g, idx, r.pos(fr, x))
		if i < 0 || i >= int64(len(b)) {
			r.runtimePanic(g, "index out of range")
			return false
		}
		r.set(fr, x, int64(b[i]))
	case *SymStr:
		i, _ := r.concreteIndex(g, idx, r.pos(fr, x))
		if i < 0 {
			r.runtimePanic(g, "index out of range")
			return false
		}
		if !r.check(g, r.cmpLen(b.n, ">", i), "index out of range", r.pos(fr, x)) {
			return false
		}
		r.set(fr, x, b.b[i])
	default:
		engineFail("Lookup on %T", base)
	}
	fr.pc++
	return false
}

// ---- range ----

type stickyKey struct {
	m *MapObj
	n int
}

type rangeIter struct {
	m     *MapObj
	order []*MapEntry
	s     string
	pos   int
	isMap bool
}

var permTable = map[int][][]int{
	2: {{0, 1}, {1, 0}},
	3: {{0, 1, 2}, {0, 2, 1}, {1, 0, 2}, {1, 2, 0}, {2, 0, 1}, {2, 1, 0}},
}

func (r *Run) newIter(g *G, v Value, x *ssa.Range) *rangeIter {
	switch b := v.(type) {
	case *MapObj:
		it := &rangeIter{m: b, isMap: true}
		if b != nil {
			r.access(g, b, false, x)
			for _, e := range b.entries {
				if e.live {
					it.order = append(it.order, e)
				}
			}
			// iteration order is a nondeterministic choice where it can matter to the repository:
			// in the repository's own loops and in the dependency's graph walks (walkAncestors ...);
			// the dependency's internal bookkeeping loops and the models keep insertion order
			permute := false
			if len(g.stack) > 0 && g.top().fn.Pkg != nil {
				pp := g.top().fn.Pkg.Pkg.Path()
				permute = (strings.HasPrefix(pp, modulePath) && !strings.HasSuffix(pp, "/verifrt")) || strings.HasPrefix(g.top().fn.Name(), "walk")
				if permute && strings.Contains(r.curPos(g), "zz_vh_") {
					permute = false // the harness' own loops
				}
			}
			if n := len(it.order); r.permuteMaps > 0 && n >= 2 && n <= r.permuteMaps && n <= 3 && permute {
				perms := permTable[n]
				// sticky: a map object iterated again with the same number of entries keeps the order
				// chosen the first time in this run (fresh maps, e.g. each GetLeaves() result, choose anew)
				key := stickyKey{b, n}
				k, seen := r.stickyPerm[key]
				if !seen {
					k = r.decide("maporder", len(perms), nil, r.curPos(g))
					if r.stickyPerm == nil {
						r.stickyPerm = map[stickyKey]int{}
					}
					r.stickyPerm[key] = k
				}
				p := perms[k]
				no := make([]*MapEntry, n)
				for i, j := range p {
					no[i] = it.order[j]
				}
				it.order = no
			}
		}
		return it
	case string:
		return &rangeIter{s: b}
	case *SymStr:
		engineFail("range over symbolic string")
	}
	engineFail("range over %T", v)
	return nil
}

func (r *Run) iterNext(it *rangeIter) Value {
	if it.isMap {
		for it.pos < len(it.order) {
			e := it.order[it.pos]
			it.pos++
			if e.live { // entries deleted during iteration are skipped
				return Tuple{true, e.key, copyVal(e.val)}
			}
		}
		return Tuple{false, nil, nil}
	}
	if it.pos >= len(it.s) {
		return Tuple{false, int64(0), int64(0)}
	}
	c, w := utf8.DecodeRuneInString(it.s[it.pos:])
	i := it.pos
	it.pos += w
	return Tuple{true, int64(i), int64(c)}
}

// ---- builtins ----

func (r *Run) builtin(g *G, fr *Frame, b *ssa.Builtin, args []Value) (Value, bool) {
	switch b.Name() {
	case "len":
		switch x := args[0].(type) {
		case string:
			return int64(len(x)), true
		case *SymStr:
			return x.n, true
		case Slice:
			return x.ln, true
		case Array:
			return int64(len(x)), true
		case Ptr:
			return int64(len((*x).(Array))), true
		case *MapObj:
			if x == nil {
				return int64(0), true
			}
			return int64(x.nlive), true
		case *ChanObj:
			if x == nil {
				return int64(0), true
			}
			return int64(len(x.buf)), true
		}
	case "cap":
		switch x := args[0].(type) {
		case Slice:
			return x.cp, true
		case Array:
			return int64(len(x)), true
		case Ptr:
			return int64(len((*x).(Array))), true
		case *ChanObj:
			if x == nil {
				return int64(0), true
			}
			return int64(x.cap), true
		}
	case "append":
		return r.builtinAppend(g, args[0].(Slice), args[1]), true
	case "copy":
		return r.builtinCopy(g, args[0].(Slice), args[1]), true
	case "delete":
		m := args[0].(*MapObj)
		if m != nil {
			r.access(g, m, true, nil)
		}
		r.mapDelete(m, args[1])
		return nil, true
	case "close":
		return nil, r.chanClose(g, args[0].(*ChanObj))
	case "panic":
		r.goPanic(g, args[0], "panic: "+r.describePanic(args[0]))
		return nil, false
	case "recover":
		// valid only when called directly by a deferred function during a panic
		if g.panicVal != nil && len(g.stack) >= 2 && g.top().isDefer && g.stack[len(g.stack)-2].panicking {
			v := *g.panicVal
			g.panicVal = nil
			return v, true
		}
		return Iface{}, true
	case "print", "println":
		return nil, true
	case "min", "max":
		acc := args[0]
		for _, a := range args[1:] {
			acc = r.minmax(b.Name() == "min", acc, a, fr, b)
		}
		return acc, true
	case "clear":
		switch x := args[0].(type) {
		case *MapObj:
			if x != nil {
				for _, e := range x.entries {
					e.live = false
				}
				x.nlive = 0
				x.index = map[string]int{}
			}
		case Slice:
			n, ok := x.ln.(int64)
			if !ok {
				engineFail("clear of symbolic-length slice")
			}
			for i := int64(0); i < n; i++ {
				x.a[i] = zeroLike(x.a[i])
			}
		}
		return nil, true
	case "ssa:wrapnilchk":
		recv := args[0]
		if p, ok := recv.(Ptr); ok && p == nil {
			r.runtimePanic(g, fmt.Sprintf("value method %v.%v called using nil pointer", args[1], args[2]))
			return nil, false
		}
		return recv, true
	}
	engineFail("builtin %s on %T (%s) in %s", b.Name(), args[0], describe(args[0]), fr.fn)
	return nil, false
}

func zeroLike(v Value) Value {
	switch x := v.(type) {
	case int64, *Term:
		return int64(0)
	case bool:
		return false
	case string, *SymStr:
		return ""
	case float64:
		return float64(0)
	case Ptr:
		return Ptr(nil)
	case Struct:
		c := make(Struct, len(x))
		for i := range x {
			c[i] = zeroLike(x[i])
		}
		return c
	case Array:
		c := make(Array, len(x))
		for i := range x {
			c[i] = zeroLike(x[i])
		}
		return c
	case Iface:
		return Iface{}
	case Slice:
		return Slice{ln: int64(0), cp: int64(0)}
	case *MapObj:
		return (*MapObj)(nil)
	case *Closure:
		return (*Closure)(nil)
	case *ChanObj:
		return (*ChanObj)(nil)
	}
	engineFail("zeroLike %T", v)
	return nil
}

func (r *Run) minmax(isMin bool, a, b Value, fr *Frame, bi *ssa.Builtin) Value {
	switch x := a.(type) {
	case float64:
		y := b.(float64)
		if (isMin && y < x) || (!isMin && y > x) {
			return y
		}
		return x
	case string:
		y := b.(string)
		if (isMin && y < x) || (!isMin && y > x) {
			return y
		}
		return x
	}
	// integers: need signedness; take it from the builtin's signature
	sig := bi.Type().(*types.Signature)
	t := sig.Params().At(0).Type()
	w, s, ok := intInfo(t)
	if !ok {
		engineFail("min/max on %v", t)
	}
	xa, xok := a.(int64)
	yb, yok := b.(int64)
	if xok && yok {
		var less bool
		if s {
			less = yb < xa
		} else {
			less = uint64(yb) < uint64(xa)
		}
		if less == isMin {
			return yb
		}
		return xa
	}
	ta, tb := asTerm(a, t), asTerm(b, t)
	_ = w
	if isMin {
		return termToValue(tIte(tLtRaw(tb, ta), tb, ta))
	}
	return termToValue(tIte(tLtRaw(ta, tb), tb, ta))
}

func (r *Run) builtinAppend(g *G, s Slice, more Value) Value {
	var add []Value
	var addLen Value
	switch m := more.(type) {
	case Slice:
		n, ok := m.ln.(int64)
		if !ok {
			// symbolic-length tail: physical cells up to the bound
			lt := m.ln.(*Term)
			max := int64(len(m.a))
			if bounded(lt) && lt.hi.IsInt64() && lt.hi.Int64() < max {
				max = lt.hi.Int64()
			}
			add, addLen = m.a[:max], lt
		} else {
			add, addLen = m.a[:n], n
		}
	case string:
		for i := 0; i < len(m); i++ {
			add = append(add, int64(m[i]))
		}
		addLen = int64(len(m))
	case *SymStr:
		add, addLen = m.b, m.n
	default:
		engineFail("append of %T", more)
	}
	sn, ok := s.ln.(int64)
	if !ok {
		if al, ok := addLen.(int64); ok && al == 0 {
			return s
		}
		// case-split the (small) symbolic length of the destination
		sn, _ = r.concreteIndex(g, s.ln, r.curPosPrev(g))
	}
	if al, ok := addLen.(int64); ok && al == 0 {
		if s.a == nil {
			if ms, ok := more.(Slice); ok && ms.a == nil {
				return s
			}
		}
		return s
	}
	// in-place when capacity suffices (as gc does), else reallocate
	if sc, ok := s.cp.(int64); ok {
		if al, ok := addLen.(int64); ok && sn+al <= sc && sn+al <= int64(len(s.a)) {
			for i, v := range add {
				s.a[sn+int64(i)] = copyVal(v)
			}
			return Slice{a: s.a, ln: sn + al, cp: s.cp}
		}
	}
	na := make([]Value, 0, int(sn)+len(add))
	for i := int64(0); i < sn; i++ {
		na = append(na, copyVal(s.a[i]))
	}
	for _, v := range add {
		na = append(na, copyVal(v))
	}
	var nl Value
	if al, ok := addLen.(int64); ok {
		nl = sn + al
	} else {
		nl = termToValue(wrap(rawAdd(mkZConst(big.NewInt(sn)), addLen.(*Term)), 64, true))
	}
	return Slice{a: na, ln: nl, cp: int64(len(na))}
}

func (r *Run) builtinCopy(g *G, dst Slice, src Value) Value {
	var sa []Value
	var sl Value
	switch m := src.(type) {
	case Slice:
		sa, sl = m.a, m.ln
	case string:
		for i := 0; i < len(m); i++ {
			sa = append(sa, int64(m[i]))
		}
		sl = int64(len(m))
	case *SymStr:
		sa, sl = m.b, m.n
	default:
		engineFail("copy from %T", src)
	}
	dn, dok := dst.ln.(int64)
	sn, sok := sl.(int64)
	if dok && sok {
		n := dn
		if sn < n {
			n = sn
		}
		tmp := make([]Value, n)
		for i := int64(0); i < n; i++ {
			tmp[i] = copyVal(sa[i])
		}
		for i := int64(0); i < n; i++ {
			dst.a[i] = tmp[i]
		}
		return n
	}
	// symbolic lengths: n = min(dl, sl); cell i gets ite(i < n, src[i], dst[i])
	dl, slt := lenTerm(dst.ln), lenTerm(sl)
	n := tIte(tLtRaw(slt, dl), slt, dl)
	m := len(dst.a)
	if len(sa) < m {
		m = len(sa)
	}
	tmp := make([]Value, m)
	for i := 0; i < m; i++ {
		tmp[i] = sa[i]
	}
	for i := 0; i < m; i++ {
		in := tLtRaw(mkConst(big.NewInt(int64(i)), 64, true), n)
		if in.isFalse() {
			break
		}
		switch old := dst.a[i].(type) {
		case int64, *Term:
			ot, nt := asByteLike(old), asByteLike(tmp[i])
			dst.a[i] = termToValue(tIte(in, nt, ot))
		default:
			if in.isTrue() {
				dst.a[i] = copyVal(tmp[i])
			} else {
				engineFail("copy with symbolic length of non-scalar elements")
			}
		}
	}
	return termToValue(n)
}

func asByteLike(v Value) *Term {
	switch x := v.(type) {
	case *Term:
		return x
	case int64:
		return mkConst(big.NewInt(x), 8, false)
	}
	panic("asByteLike")
}
