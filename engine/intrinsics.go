package main

// Intrinsics: verifrt API, sync primitives, and leaf models of the environment
// (DESIGN §2.6, App. B). Everything not listed here or redirected to Go-source
// models in verifrt is executed from its real source.

import (
	"fmt"
	"go/types"
	"math/big"
	"strings"

	"golang.org/x/tools/go/ssa"
)

type action int

const (
	actDone    action = iota // value returned
	actSync                  // value returned, and it was a synchronisation operation
	actBlocked               // goroutine blocked; re-execute the call when woken
	actPanic                 // a Go panic was raised
	actCalled                // a frame was pushed; result handled by continuation
)

type intrinsic func(r *Run, g *G, args []Value) (Value, action)

var intrinsics = map[string]intrinsic{}

const vrt = "github.com/bartossh/Computantis/src/verifrt."

func strArg(v Value) string {
	s, ok := v.(string)
	if !ok {
		engineFail("expected concrete string, got %T", v)
	}
	return s
}
func intArg(v Value) int64 {
	i, ok := v.(int64)
	if !ok {
		engineFail("expected concrete int, got %T", v)
	}
	return i
}

func zArg(v Value) *Term { return v.(ZVal).t }

var settleObj = new(int) // wait object of goroutines blocked in verifrt.Settle

func init() {
	reg := func(name string, f intrinsic) { intrinsics[name] = f }
	nondetInt := func(kind string, w int, s bool) intrinsic {
		return func(r *Run, g *G, a []Value) (Value, action) {
			return r.nondetInt(strArg(a[0]), kind, w, s, nil, nil), actDone
		}
	}
	reg(vrt+"NondetU8", nondetInt("u8", 8, false))
	reg(vrt+"NondetU16", nondetInt("u16", 16, false))
	reg(vrt+"NondetU32", nondetInt("u32", 32, false))
	reg(vrt+"NondetU64", nondetInt("u64", 64, false))
	reg(vrt+"NondetI64", nondetInt("i64", 64, true))
	reg(vrt+"NondetBool", func(r *Run, g *G, a []Value) (Value, action) {
		return r.nondetBool(strArg(a[0])), actDone
	})
	reg(vrt+"NondetInt", func(r *Run, g *G, a []Value) (Value, action) {
		lo, hi := intArg(a[1]), intArg(a[2])
		if lo == hi {
			r.recordChoice(strArg(a[0]), "int", lo)
			return lo, actDone
		}
		return r.nondetInt(strArg(a[0]), "int", 64, true, big.NewInt(lo), big.NewInt(hi)), actDone
	})
	reg(vrt+"NondetU64Range", func(r *Run, g *G, a []Value) (Value, action) {
		lo, hi := new(big.Int).SetUint64(uint64(intArg(a[1]))), new(big.Int).SetUint64(uint64(intArg(a[2])))
		return r.nondetInt(strArg(a[0]), "u64", 64, false, lo, hi), actDone
	})
	reg(vrt+"Choose", func(r *Run, g *G, a []Value) (Value, action) {
		n := int(intArg(a[1]))
		k := r.decide("choose:"+strArg(a[0]), n, nil, r.curPosPrev(g))
		r.recordChoice(strArg(a[0]), "choose", int64(k))
		return int64(k), actDone
	})
	reg(vrt+"NondetBytes", func(r *Run, g *G, a []Value) (Value, action) {
		return r.nondetBytes(strArg(a[0]), intArg(a[1]), intArg(a[2])), actDone
	})
	reg(vrt+"NondetString", func(r *Run, g *G, a []Value) (Value, action) {
		s := r.nondetBytes(strArg(a[0]), intArg(a[1]), intArg(a[2]))
		return r.bytesToString(s), actDone
	})
	reg(vrt+"NondetHash", func(r *Run, g *G, a []Value) (Value, action) {
		s := r.nondetBytes(strArg(a[0]), 32, 32)
		return Array(s.a[:32]), actDone
	})
	reg(vrt+"Assume", func(r *Run, g *G, a []Value) (Value, action) {
		r.assumeValue(a[0])
		return nil, actDone
	})
	reg(vrt+"Assert", func(r *Run, g *G, a []Value) (Value, action) {
		r.assertCond(g, a[0], strArg(a[1]))
		return nil, actDone
	})
	reg(vrt+"Reach", func(r *Run, g *G, a []Value) (Value, action) {
		r.stats.Reaches[strArg(a[0])]++
		return nil, actDone
	})
	reg(vrt+"ExploreSchedules", func(r *Run, g *G, a []Value) (Value, action) {
		r.exploreSched = true
		r.maxPreemptions = int(intArg(a[0]))
		return nil, actDone
	})
	reg(vrt+"CheckLeaks", func(r *Run, g *G, a []Value) (Value, action) {
		r.checkLeaks = a[0].(bool)
		r.drainAfterMain = r.checkLeaks
		return nil, actDone
	})
	reg(vrt+"PermuteMaps", func(r *Run, g *G, a []Value) (Value, action) {
		r.permuteMaps = int(intArg(a[0]))
		return nil, actDone
	})
	reg(vrt+"TrackRaces", func(r *Run, g *G, a []Value) (Value, action) {
		if a[0].(bool) {
			r.hb = newHB(r)
		} else {
			r.hb = nil
		}
		return nil, actDone
	})
	reg(vrt+"Trace", func(r *Run, g *G, a []Value) (Value, action) {
		if s, ok := a[0].(string); ok {
			r.trace("%s", s)
		}
		return nil, actDone
	})
	reg(vrt+"Native", func(r *Run, g *G, a []Value) (Value, action) { return false, actDone })
	reg(vrt+"Redirect", func(r *Run, g *G, a []Value) (Value, action) {
		c, ok := a[1].(Iface).v.(*Closure)
		if !ok || c == nil {
			engineFail("Redirect: replacement must be a function value")
		}
		if r.runRedirects == nil {
			r.runRedirects = map[string]*Closure{}
		}
		r.runRedirects[strArg(a[0])] = c
		return nil, actDone
	})
	reg(vrt+"SearchOnly", func(r *Run, g *G, a []Value) (Value, action) {
		r.searchOnly = int(intArg(a[0]))
		return nil, actDone
	})
	reg(vrt+"SearchBudget", func(r *Run, g *G, a []Value) (Value, action) {
		r.searchBudget = int(intArg(a[0]))
		return nil, actDone
	})
	reg(vrt+"Thorough", func(r *Run, g *G, a []Value) (Value, action) { return r.eng.opts.Tier == "thorough", actDone })
	// Quiesce lets every other goroutine run until none of them can make progress (no schedule
	// exploration): used by harnesses to wait for fire-and-forget goroutines of the code under test.
	reg(vrt+"Quiesce", func(r *Run, g *G, a []Value) (Value, action) {
		for {
			progressed := false
			for i := 0; i < len(r.gs); i++ {
				og := r.gs[i]
				if og == g || og.state != GRunnable {
					continue
				}
				saved := r.cur
				r.cur = og
				for og.state == GRunnable {
					r.step(og)
				}
				r.cur = saved
				progressed = true
			}
			if !progressed {
				break
			}
		}
		return nil, actSync
	})
	// Settle: like Quiesce, but the order in which the other goroutines run is left to the scheduler
	// (the caller blocks until nobody else is runnable; see schedule()).
	reg(vrt+"Settle", func(r *Run, g *G, a []Value) (Value, action) {
		for _, og := range r.gs {
			if og != g && og.state == GRunnable {
				r.block(g, "settle", settleObj)
				return nil, actBlocked
			}
		}
		return nil, actSync
	})
	// byte-slice equality as ONE term instead of a byte-wise loop of branches
	bytesEq := func(r *Run, g *G, a []Value) (Value, action) {
		return eqStr(r.symOf(a[0]), r.symOf(a[1])), actDone
	}
	reg("internal/bytealg.Equal", bytesEq)
	reg(vrt+"ModelBytesEqual", bytesEq)
	reg("bytes.Equal", bytesEq)
	reg(vrt+"SyncPoint", func(r *Run, g *G, a []Value) (Value, action) { return nil, actSync })
	reg(vrt+"RunHarness", func(r *Run, g *G, a []Value) (Value, action) {
		engineFail("RunHarness is native-only")
		return nil, actDone
	})

	// ---- Z ----
	reg(vrt+"ZU64", func(r *Run, g *G, a []Value) (Value, action) {
		switch x := a[0].(type) {
		case int64:
			return ZVal{mkZConst(bigOf(x, false))}, actDone
		case *Term:
			return ZVal{x}, actDone
		}
		return nil, actDone
	})
	reg(vrt+"ZI64", func(r *Run, g *G, a []Value) (Value, action) {
		switch x := a[0].(type) {
		case int64:
			return ZVal{mkZConst(big.NewInt(x))}, actDone
		case *Term:
			return ZVal{x}, actDone
		}
		return nil, actDone
	})
	reg(vrt+"ZAdd", func(r *Run, g *G, a []Value) (Value, action) { return ZVal{rawAdd(zArg(a[0]), zArg(a[1]))}, actDone })
	reg(vrt+"ZSub", func(r *Run, g *G, a []Value) (Value, action) { return ZVal{rawSub(zArg(a[0]), zArg(a[1]))}, actDone })
	reg(vrt+"ZMulU64", func(r *Run, g *G, a []Value) (Value, action) {
		var k *Term
		switch x := a[1].(type) {
		case int64:
			k = mkZConst(bigOf(x, false))
		case *Term:
			k = x
		}
		return ZVal{rawMul(zArg(a[0]), k)}, actDone
	})
	reg(vrt+"ZEq", func(r *Run, g *G, a []Value) (Value, action) { return termToValue(tEqRaw(zArg(a[0]), zArg(a[1]))), actDone })
	reg(vrt+"ZLt", func(r *Run, g *G, a []Value) (Value, action) { return termToValue(tLtRaw(zArg(a[0]), zArg(a[1]))), actDone })
	reg(vrt+"ZLe", func(r *Run, g *G, a []Value) (Value, action) { return termToValue(tLeRaw(zArg(a[0]), zArg(a[1]))), actDone })
	reg(vrt+"ZGe", func(r *Run, g *G, a []Value) (Value, action) { return termToValue(tLeRaw(zArg(a[1]), zArg(a[0]))), actDone })
	reg(vrt+"ZGt", func(r *Run, g *G, a []Value) (Value, action) { return termToValue(tLtRaw(zArg(a[1]), zArg(a[0]))), actDone })
	reg(vrt+"ZIte", func(r *Run, g *G, a []Value) (Value, action) {
		return ZVal{tIte(boolTerm(a[0]), zArg(a[1]), zArg(a[2]))}, actDone
	})
	reg(vrt+"ZPow2x64", func(r *Run, g *G, a []Value) (Value, action) { return ZVal{mkZConst(pow2(64))}, actDone })
	reg(vrt+"And", func(r *Run, g *G, a []Value) (Value, action) { return andValues(a[0], a[1]), actDone })
	reg(vrt+"Or", func(r *Run, g *G, a []Value) (Value, action) { return orValues(a[0], a[1]), actDone })
	reg(vrt+"Implies", func(r *Run, g *G, a []Value) (Value, action) { return orValues(notValue(a[0]), a[1]), actDone })
	reg(vrt+"Not", func(r *Run, g *G, a []Value) (Value, action) { return notValue(a[0]), actDone })

	// ---- side-table helpers for Go-source models ----
	reg(vrt+"modelAttach", func(r *Run, g *G, a []Value) (Value, action) {
		p := ifacePtr(a[0])
		r.attach[p] = a[1]
		return nil, actDone
	})
	reg(vrt+"modelAttached", func(r *Run, g *G, a []Value) (Value, action) {
		p := ifacePtr(a[0])
		if v, ok := r.attach[p]; ok {
			return v, actDone
		}
		return Iface{}, actDone
	})
	reg(vrt+"modelNewOpaque", func(r *Run, g *G, a []Value) (Value, action) {
		engineFail("modelNewOpaque must be typed; use typed constructors")
		return nil, actDone
	})

	// ---- sync ----
	mu := func(p Value, name string) *MutexObj { return nil }
	_ = mu
	reg("(*sync.Mutex).Lock", func(r *Run, g *G, a []Value) (Value, action) {
		if r.mutexLock(g, r.mutexOf(a[0].(Ptr), r.lockName(g))) {
			return nil, actSync
		}
		return nil, actBlocked
	})
	reg("(*sync.Mutex).TryLock", func(r *Run, g *G, a []Value) (Value, action) {
		return r.mutexTryLock(g, r.mutexOf(a[0].(Ptr), r.lockName(g))), actSync
	})
	reg("(*sync.Mutex).Unlock", func(r *Run, g *G, a []Value) (Value, action) {
		if !r.mutexUnlock(g, r.mutexOf(a[0].(Ptr), r.lockName(g))) {
			return nil, actPanic
		}
		return nil, actSync
	})
	reg("(*sync.RWMutex).Lock", intrinsics["(*sync.Mutex).Lock"])
	reg("(*sync.RWMutex).TryLock", intrinsics["(*sync.Mutex).TryLock"])
	reg("(*sync.RWMutex).Unlock", intrinsics["(*sync.Mutex).Unlock"])
	reg("(*sync.RWMutex).RLock", func(r *Run, g *G, a []Value) (Value, action) {
		if r.mutexRLock(g, r.mutexOf(a[0].(Ptr), r.lockName(g))) {
			return nil, actSync
		}
		return nil, actBlocked
	})
	reg("(*sync.RWMutex).RUnlock", func(r *Run, g *G, a []Value) (Value, action) {
		if !r.mutexRUnlock(g, r.mutexOf(a[0].(Ptr), r.lockName(g))) {
			return nil, actPanic
		}
		return nil, actSync
	})
	// WaitGroup: counter in the side table
	reg("(*sync.WaitGroup).Add", func(r *Run, g *G, a []Value) (Value, action) {
		w := r.wgOf(a[0].(Ptr))
		w.n += int(intArg(a[1]))
		if w.n < 0 {
			r.goPanic(g, Iface{t: r.eng.runtimeErrorType, v: "sync: negative WaitGroup counter"}, "sync: negative WaitGroup counter")
			return nil, actPanic
		}
		r.hbRelease(g, w)
		if w.n == 0 {
			for _, wg := range w.waiters {
				if wg.state == GBlocked && wg.waitObj == w {
					wg.state = GRunnable
				}
			}
			w.waiters = nil
		}
		return nil, actSync
	})
	reg("(*sync.WaitGroup).Done", func(r *Run, g *G, a []Value) (Value, action) {
		return intrinsics["(*sync.WaitGroup).Add"](r, g, []Value{a[0], int64(-1)})
	})
	reg("(*sync.WaitGroup).Wait", func(r *Run, g *G, a []Value) (Value, action) {
		w := r.wgOf(a[0].(Ptr))
		if w.n == 0 {
			r.hbAcquire(g, w)
			return nil, actSync
		}
		w.waiters = append(w.waiters, g)
		r.block(g, "WaitGroup.Wait", w)
		return nil, actBlocked
	})
	reg("(*sync.Once).Do", func(r *Run, g *G, a []Value) (Value, action) {
		p := a[0].(Ptr)
		if _, done := r.syncObjs[p]; done {
			return nil, actDone
		}
		r.syncObjs[p] = true
		f := a[1].(*Closure)
		r.pushFrame(g, f.fn, nil, f.env, -1)
		return nil, actCalled
	})

	// atomics
	atomicLoad := func(r *Run, g *G, a []Value) (Value, action) {
		r.hbAtomicLoad(g, a[0].(Ptr))
		return loadVal(a[0].(Ptr)), actSync
	}
	atomicStore := func(r *Run, g *G, a []Value) (Value, action) {
		r.hbAtomicStore(g, a[0].(Ptr))
		storeVal(a[0].(Ptr), a[1])
		return nil, actSync
	}
	for _, t := range []string{"Int32", "Int64", "Uint32", "Uint64", "Uintptr", "Pointer"} {
		reg("sync/atomic.Load"+t, atomicLoad)
		reg("sync/atomic.Store"+t, atomicStore)
	}
	atomicAdd := func(w int, s bool) intrinsic {
		return func(r *Run, g *G, a []Value) (Value, action) {
			p := a[0].(Ptr)
			r.hbAtomic(g, p)
			old := *p
			var nv Value
			if x, ok := old.(int64); ok {
				if d, ok := a[1].(int64); ok {
					nv = normInt(x+d, w, s)
				}
			}
			if nv == nil {
				t, err := tArith("+", asTermW(old, w, s), asTermW(a[1], w, s))
				if err != nil {
					engineFail("atomic add: %v", err)
				}
				nv = termToValue(t)
			}
			*p = nv
			return nv, actSync
		}
	}
	reg("sync/atomic.AddInt32", atomicAdd(32, true))
	reg("sync/atomic.AddInt64", atomicAdd(64, true))
	reg("sync/atomic.AddUint32", atomicAdd(32, false))
	reg("sync/atomic.AddUint64", atomicAdd(64, false))
	cas := func(r *Run, g *G, a []Value) (Value, action) {
		p := a[0].(Ptr)
		r.hbAtomic(g, p)
		eq := eqValues(*p, a[1])
		b, ok := eq.(bool)
		if !ok {
			b = r.branch(eq.(*Term), "atomic.CompareAndSwap")
		}
		if b {
			*p = a[2]
		}
		return b, actSync
	}
	for _, t := range []string{"Int32", "Int64", "Uint32", "Uint64", "Uintptr", "Pointer"} {
		reg("sync/atomic.CompareAndSwap"+t, cas)
	}
	swap := func(r *Run, g *G, a []Value) (Value, action) {
		p := a[0].(Ptr)
		r.hbAtomic(g, p)
		old := *p
		*p = a[1]
		return old, actSync
	}
	for _, t := range []string{"Int32", "Int64", "Uint32", "Uint64", "Uintptr", "Pointer"} {
		reg("sync/atomic.Swap"+t, swap)
	}

	// ---- runtime / misc ----
	reg("runtime.Gosched", func(r *Run, g *G, a []Value) (Value, action) { return nil, actSync })
	reg("runtime.KeepAlive", func(r *Run, g *G, a []Value) (Value, action) { return nil, actDone })
	reg("runtime.GOMAXPROCS", func(r *Run, g *G, a []Value) (Value, action) { return int64(1), actDone })
	reg("runtime.NumCPU", func(r *Run, g *G, a []Value) (Value, action) { return int64(1), actDone })
	reg("internal/abi.NoEscape", func(r *Run, g *G, a []Value) (Value, action) { return a[0], actDone })
	reg("internal/race.Acquire", func(r *Run, g *G, a []Value) (Value, action) { return nil, actDone })
	reg("internal/race.Release", func(r *Run, g *G, a []Value) (Value, action) { return nil, actDone })
	reg("internal/race.ReleaseMerge", func(r *Run, g *G, a []Value) (Value, action) { return nil, actDone })
	reg("internal/race.Enable", func(r *Run, g *G, a []Value) (Value, action) { return nil, actDone })
	reg("internal/race.Disable", func(r *Run, g *G, a []Value) (Value, action) { return nil, actDone })
	reg("time.now", func(r *Run, g *G, a []Value) (Value, action) {
		// a fixed, concrete "now": 2024-01-01T00:00:00Z plus a per-run logical tick
		r.clockTicks++
		sec := int64(1704067200) + r.clockTicks
		return Tuple{sec, int64(0), int64(1000000000) * r.clockTicks}, actDone
	})
	reg("time.runtimeNano", func(r *Run, g *G, a []Value) (Value, action) {
		r.clockTicks++
		return int64(1000000000) * r.clockTicks, actDone
	})
	reg("time.Sleep", func(r *Run, g *G, a []Value) (Value, action) { return nil, actSync })

	// fmt: structural/concrete formatting (DESIGN §2.6)
	reg("fmt.Sprintf", func(r *Run, g *G, a []Value) (Value, action) {
		return r.sprintf(strArgOr(a[0], "<fmt>"), a[1].(Slice)), actDone
	})
	reg("fmt.Sprint", func(r *Run, g *G, a []Value) (Value, action) {
		return r.sprintf("", a[0].(Slice)), actDone
	})
	reg("fmt.Sprintln", func(r *Run, g *G, a []Value) (Value, action) {
		return r.sprintf("", a[0].(Slice)), actDone
	})
	noop := func(res Value) intrinsic {
		return func(r *Run, g *G, a []Value) (Value, action) { return res, actDone }
	}
	reg("fmt.Println", noop(Tuple{int64(0), Iface{}}))
	reg("fmt.Printf", noop(Tuple{int64(0), Iface{}}))
	reg("fmt.Print", noop(Tuple{int64(0), Iface{}}))
	reg("fmt.Fprintf", noop(Tuple{int64(0), Iface{}}))
	reg("fmt.Fprintln", noop(Tuple{int64(0), Iface{}}))
	reg("fmt.Fprint", noop(Tuple{int64(0), Iface{}}))
	reg("(*log.Logger).Printf", noop(nil))
	reg("(*log.Logger).Println", noop(nil))
	reg("log.Printf", noop(nil))
	reg("log.Println", noop(nil))
	reg("os.Getenv", noop(""))
}

func strArgOr(v Value, d string) string {
	if s, ok := v.(string); ok {
		return s
	}
	return d
}

func asTermW(v Value, w int, s bool) *Term {
	switch x := v.(type) {
	case *Term:
		return x
	case int64:
		return mkConst(bigOf(x, s), w, s)
	}
	panic("asTermW")
}

func ifacePtr(v Value) Ptr {
	if i, ok := v.(Iface); ok {
		v = i.v
	}
	p, ok := v.(Ptr)
	if !ok {
		engineFail("model attach: not a pointer (%T)", v)
	}
	return p
}

type wgObj struct {
	n       int
	waiters []*G
}

func (r *Run) wgOf(p Ptr) *wgObj {
	if w, ok := r.syncObjs[p]; ok {
		return w.(*wgObj)
	}
	w := &wgObj{}
	r.syncObjs[p] = w
	return w
}

// lockName names a lock by the source expression position of its first use (for reports).
func (r *Run) lockName(g *G) string {
	if len(g.stack) == 0 {
		return "?"
	}
	fr := g.top()
	return fr.fn.Name() + "@" + r.curPosPrev(g)
}

// genericIntrinsic handles body-less functions by pattern.
func (r *Run) genericIntrinsic(fn *ssa.Function) intrinsic {
	name := fn.String()
	if strings.HasPrefix(name, "internal/race.") || strings.HasPrefix(name, "internal/msan.") || strings.HasPrefix(name, "internal/asan.") {
		return func(r *Run, g *G, a []Value) (Value, action) { return zeroResults(fn), actDone }
	}
	return nil
}

// ---- symbolic byte strings ----

func (r *Run) nondetBytes(name string, minLen, maxLen int64) Slice {
	if maxLen < minLen || maxLen > 4096 {
		engineFail("NondetBytes bounds")
	}
	vn := r.freshName(name)
	cells := make([]Value, maxLen)
	rec := &NondetRec{Name: name, Kind: "bytes", Var: vn}
	for i := range cells {
		t := mkVar(fmt.Sprintf("%s[%d]", vn, i), 8, false)
		r.declareVar(t)
		cells[i] = t
		rec.bytes = append(rec.bytes, t)
	}
	var ln Value
	if minLen == maxLen {
		ln = maxLen
		rec.lenLit = maxLen
	} else {
		lt := mkVar(vn+".len", 64, true)
		lt.lo, lt.hi = big.NewInt(minLen), big.NewInt(maxLen)
		r.declareVar(lt)
		ln = lt
		rec.lenTerm = lt
	}
	r.nondets = append(r.nondets, rec)
	return Slice{a: cells, ln: ln, cp: maxLen}
}

// ---- Sprintf ----

func (r *Run) nativeOf(v Value, t types.Type) (interface{}, bool) {
	switch x := v.(type) {
	case nil:
		return nil, true
	case bool:
		return x, true
	case string:
		return x, true
	case float64:
		return x, true
	case int64:
		if t != nil {
			if _, s, ok := intInfo(t); ok && !s {
				return uint64(x), true
			}
		}
		return x, true
	case Iface:
		if x.t == nil {
			return nil, true
		}
		// errors and Stringers print as their dynamic type name (no method calls here)
		if isErrorLike(x.t) {
			if s, ok := r.errorText(x); ok {
				return s, true
			}
			return "<" + x.t.String() + ">", true
		}
		return r.nativeOf(x.v, x.t)
	case Slice:
		n, ok := x.ln.(int64)
		if !ok {
			return nil, false
		}
		if el, ok := elemBasic(t); ok && el == types.Uint8 {
			b := make([]byte, n)
			for i := range b {
				c, ok := x.a[i].(int64)
				if !ok {
					return nil, false
				}
				b[i] = byte(c)
			}
			return b, true
		}
		out := make([]interface{}, n)
		for i := range out {
			e, ok := r.nativeOf(x.a[i], nil)
			if !ok {
				return nil, false
			}
			out[i] = e
		}
		return out, true
	case Array:
		if el, ok := elemBasic(t); ok && el == types.Uint8 {
			b := make([]byte, len(x))
			for i := range b {
				c, ok := x[i].(int64)
				if !ok {
					return nil, false
				}
				b[i] = byte(c)
			}
			return b, true
		}
		return fmt.Sprintf("[%d]array", len(x)), true
	case Struct:
		return "{struct}", true
	case Ptr:
		if x == nil {
			return "<nil>", true
		}
		return "0xptr", true
	case ZVal:
		if x.t.isConst() {
			return x.t.k.String(), true
		}
		return nil, false
	}
	return nil, false
}

func elemBasic(t types.Type) (types.BasicKind, bool) {
	if t == nil {
		return 0, false
	}
	var e types.Type
	switch u := t.Underlying().(type) {
	case *types.Slice:
		e = u.Elem()
	case *types.Array:
		e = u.Elem()
	default:
		return 0, false
	}
	b, ok := e.Underlying().(*types.Basic)
	if !ok {
		return 0, false
	}
	return b.Kind(), true
}

func isErrorLike(t types.Type) bool {
	ms := types.NewMethodSet(t)
	for i := 0; i < ms.Len(); i++ {
		if ms.At(i).Obj().Name() == "Error" {
			return true
		}
	}
	return false
}

// errorText renders the common concrete error types without calling into the interpreter.
func (r *Run) errorText(x Iface) (string, bool) {
	ts := x.t.String()
	switch ts {
	case "*errors.errorString":
		if p, ok := x.v.(Ptr); ok && p != nil {
			if s, ok := (*p).(Struct); ok {
				if str, ok := s[0].(string); ok {
					return str, true
				}
			}
		}
	}
	return "", false
}

func (r *Run) sprintf(format string, args Slice) Value {
	n, ok := args.ln.(int64)
	if !ok {
		return r.opaqueString(format)
	}
	native := make([]interface{}, 0, n)
	allNative := true
	for i := int64(0); i < n; i++ {
		v, ok := r.nativeOf(args.a[i], nil)
		if !ok {
			allNative = false
			break
		}
		native = append(native, v)
	}
	if allNative {
		if format == "" {
			return fmt.Sprint(native...)
		}
		return fmt.Sprintf(format, native...)
	}
	// symbolic arguments: splice symbolic strings for %s / %v, format concrete arguments natively
	if format == "" {
		return r.opaqueString(format)
	}
	out := &SymStr{n: int64(0)}
	appendStr := func(v Value) bool {
		if _, ok := out.n.(int64); !ok {
			return false // nothing can be appended after a symbolic-length piece
		}
		switch x := v.(type) {
		case string:
			out = asSym(concatStr(out, strToSym(x)))
		case *SymStr:
			out = asSym(concatStr(out, x))
		default:
			return false
		}
		return true
	}
	arg := int64(0)
	for i := 0; i < len(format); i++ {
		c := format[i]
		if c != '%' {
			if !appendStr(string(c)) {
				return r.opaqueString(format)
			}
			continue
		}
		if i+1 >= len(format) {
			return r.opaqueString(format)
		}
		i++
		verb := format[i]
		if verb == '%' {
			appendStr("%")
			continue
		}
		if arg >= n {
			return r.opaqueString(format)
		}
		av := args.a[arg]
		arg++
		if iv, ok := av.(Iface); ok {
			av = iv.v
		}
		if nv, ok := r.nativeOf(args.a[arg-1], nil); ok {
			if !appendStr(fmt.Sprintf("%"+string(verb), nv)) {
				return r.opaqueString(format)
			}
			continue
		}
		if (verb == 's' || verb == 'v') && appendStr(av) {
			continue
		}
		return r.opaqueString(format)
	}
	return normStr(out)
}

func asSym(v Value) *SymStr {
	switch x := v.(type) {
	case string:
		return strToSym(x)
	case *SymStr:
		return x
	}
	panic("asSym")
}

// opaqueString stands for formatted text the engine does not model (log lines): unique per call.
func (r *Run) opaqueString(format string) Value {
	r.auxCounter++
	return fmt.Sprintf("<fmt#%d:%s>", r.auxCounter, format)
}
