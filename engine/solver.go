package main

// Long-lived SMT solver process spoken to over stdin/stdout (SMT-LIB2).
// One process per worker; push/pop per run; any "(error" line makes the
// answer inconclusive (never "unsat").

import (
	"bufio"
	"fmt"
	"io"
	"math/big"
	"os"
	"os/exec"
	"strings"
	"time"
)

type SolverKind struct {
	Name string
	Argv []string
}

var (
	solverZ3New = SolverKind{"z3-5.1.0", []string{"z3-new", "-in"}}
	solverZ3Old = SolverKind{"z3-4.8.12", []string{"z3", "-in"}}
	solverCVC5  = SolverKind{"cvc5-1.0", []string{"cvc5", "--incremental", "--produce-models", "--lang=smt2"}}
)

type Solver struct {
	kind    SolverKind
	cmd     *exec.Cmd
	in      io.WriteCloser
	w       *bufio.Writer
	dead    bool
	out     *bufio.Reader
	Calls   int
	Dur     time.Duration
	Errors  int
	LastErr string
	log     io.Writer // optional transcript
	timeout int       // ms per check
	pend    []string  // commands not yet written to the solver
	marks   []int     // positions in pend of unflushed "(push)" commands
	Elided  int
	Unknowns int
}

func NewSolver(kind SolverKind, timeoutMs int) (*Solver, error) {
	cmd := exec.Command(kind.Argv[0], kind.Argv[1:]...)
	in, err := cmd.StdinPipe()
	if err != nil {
		return nil, err
	}
	out, err := cmd.StdoutPipe()
	if err != nil {
		return nil, err
	}
	cmd.Stderr = os.Stderr
	if err := cmd.Start(); err != nil {
		return nil, err
	}
	s := &Solver{kind: kind, cmd: cmd, in: in, w: bufio.NewWriterSize(in, 1<<16), out: bufio.NewReaderSize(out, 1<<16), timeout: timeoutMs}
	if d := os.Getenv("GOSYM_TRANSCRIPT"); d != "" {
		f, _ := os.CreateTemp(d, "solver-*.smt2")
		s.log = f
	}
	s.Send("(set-option :print-success false)")
	// no solver-side timeout: z3 spawns a timer thread per check (costly here); the
	// deadline is enforced from this side by killing the process (see readUntilMarker).
	s.Send("(set-logic ALL)")
	return s, nil
}

func (s *Solver) Close() {
	if s == nil || s.cmd == nil {
		return
	}
	s.flushPending()
	s.w.WriteString("(exit)\n")
	s.w.Flush()
	s.in.Close()
	done := make(chan struct{})
	go func() { s.cmd.Wait(); close(done) }()
	select {
	case <-done:
	case <-time.After(2 * time.Second):
		s.cmd.Process.Kill()
	}
	s.cmd = nil
}

func (s *Solver) Send(x string) {
	if s.log != nil {
		io.WriteString(s.log, x+"\n")
	}
	if s.dead {
		return
	}
	// commands are queued until an answer is needed; a scope that is pushed and popped
	// without any check in between never reaches the solver
	switch x {
	case "(push)":
		s.marks = append(s.marks, len(s.pend))
		s.pend = append(s.pend, x)
	case "(pop)":
		if n := len(s.marks); n > 0 {
			s.Elided += len(s.pend) - s.marks[n-1]
			s.pend = s.pend[:s.marks[n-1]]
			s.marks = s.marks[:n-1]
		} else {
			s.pend = append(s.pend, x)
		}
	default:
		s.pend = append(s.pend, x)
	}
}

func (s *Solver) flushPending() {
	for _, x := range s.pend {
		s.w.WriteString(x)
		s.w.WriteByte('\n')
	}
	s.pend = s.pend[:0]
	s.marks = s.marks[:0]
}

// sync reads everything up to an echo marker, returning the lines.
func (s *Solver) readUntilMarker() []string {
	marker := "@@sync@@"
	if s.dead {
		return []string{"(error \"solver was killed after a timeout\")"}
	}
	s.flushPending()
	s.w.WriteString("(echo \"" + marker + "\")\n")
	s.w.Flush()
	timer := time.AfterFunc(time.Duration(s.timeout)*time.Millisecond, func() {
		s.dead = true
		s.cmd.Process.Kill()
	})
	defer timer.Stop()
	var lines []string
	for {
		l, err := s.out.ReadString('\n')
		l = strings.TrimSpace(l)
		if strings.Trim(l, "\"") == marker {
			break
		}
		if l != "" {
			lines = append(lines, l)
		}
		if err != nil {
			lines = append(lines, "(error \"solver pipe closed: "+err.Error()+"\")")
			break
		}
	}
	return lines
}

// Check returns "sat", "unsat" or "unknown" (the latter also on errors).
func (s *Solver) Check() string {
	t := time.Now()
	s.Send("(check-sat)")
	lines := s.readUntilMarker()
	s.Calls++
	s.Dur += time.Since(t)
	res := "unknown"
	bad := false
	for _, l := range lines {
		switch {
		case strings.HasPrefix(l, "(error"):
			bad = true
			s.Errors++
			s.LastErr = l
		case l == "sat" || l == "unsat" || l == "unknown":
			res = l
		}
	}
	if bad {
		return "unknown"
	}
	if res == "unknown" {
		s.Send("(get-info :reason-unknown)")
		s.LastErr = strings.Join(s.readUntilMarker(), " ")
		s.Unknowns++
	}
	return res
}

// Values returns the model values of the named Int/Bool constants.
func (s *Solver) Values(names []string) (map[string]*big.Int, error) {
	res := map[string]*big.Int{}
	for start := 0; start < len(names); start += 200 {
		end := start + 200
		if end > len(names) {
			end = len(names)
		}
		q := make([]string, 0, end-start)
		for _, n := range names[start:end] {
			q = append(q, smtName(n))
		}
		s.Send("(get-value (" + strings.Join(q, " ") + "))")
		lines := s.readUntilMarker()
		txt := strings.Join(lines, " ")
		if strings.Contains(txt, "(error") {
			return nil, fmt.Errorf("get-value: %s", txt)
		}
		if err := parseValues(txt, res); err != nil {
			return nil, err
		}
	}
	return res, nil
}

// parseValues parses ((|a| 1) (|b| (- 2)) (|c| true)) ...
func parseValues(txt string, res map[string]*big.Int) error {
	toks := tokenize(txt)
	i := 0
	if i >= len(toks) || toks[i] != "(" {
		return fmt.Errorf("bad get-value output: %q", txt)
	}
	i++
	for i < len(toks) && toks[i] == "(" {
		i++
		name := strings.Trim(toks[i], "|")
		i++
		var v *big.Int
		neg := false
		if toks[i] == "(" { // (- n)
			i++
			if toks[i] != "-" {
				return fmt.Errorf("unexpected value form near %q", toks[i])
			}
			neg = true
			i++
			v, _ = new(big.Int).SetString(toks[i], 10)
			i++
			if toks[i] != ")" {
				return fmt.Errorf("bad negative literal")
			}
			i++
		} else {
			switch toks[i] {
			case "true":
				v = big.NewInt(1)
			case "false":
				v = big.NewInt(0)
			default:
				var ok bool
				v, ok = new(big.Int).SetString(toks[i], 10)
				if !ok {
					return fmt.Errorf("bad literal %q", toks[i])
				}
			}
			i++
		}
		if neg {
			v.Neg(v)
		}
		res[name] = v
		if toks[i] != ")" {
			return fmt.Errorf("bad pair close")
		}
		i++
	}
	return nil
}

func tokenize(s string) []string {
	var toks []string
	i := 0
	for i < len(s) {
		c := s[i]
		switch {
		case c == '(' || c == ')':
			toks = append(toks, string(c))
			i++
		case c == ' ' || c == '\t' || c == '\n' || c == '\r':
			i++
		case c == '|':
			j := strings.IndexByte(s[i+1:], '|')
			toks = append(toks, s[i:i+j+2])
			i += j + 2
		default:
			j := i
			for j < len(s) && s[j] != '(' && s[j] != ')' && s[j] != ' ' && s[j] != '\n' {
				j++
			}
			toks = append(toks, s[i:j])
			i = j
		}
	}
	return toks
}
