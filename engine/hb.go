package main

// Happens-before tracker (DESIGN A.7): vector clocks per simulated goroutine,
// per synchronisation object, and per accessed memory cell. Enabled per harness
// with verifrt.TrackRaces(true); all hooks are no-ops otherwise.

import (
	"fmt"
	"os"
	"strings"

	"golang.org/x/tools/go/ssa"
)

var hbDebug = os.Getenv("GOSYM_HB_DEBUG") != ""

type vclock []int

func (a vclock) leq(b vclock) bool {
	for i, x := range a {
		y := 0
		if i < len(b) {
			y = b[i]
		}
		if x > y {
			return false
		}
	}
	return true
}

func join(a, b vclock) vclock {
	n := len(a)
	if len(b) > n {
		n = len(b)
	}
	c := make(vclock, n)
	for i := range c {
		if i < len(a) {
			c[i] = a[i]
		}
		if i < len(b) && b[i] > c[i] {
			c[i] = b[i]
		}
	}
	return c
}

type accessRec struct {
	g     int
	clock vclock
	pos   string
	fn    string
	write bool
}

type cellState struct {
	lastWrite *accessRec
	reads     []*accessRec
}

type raceReport struct {
	Cell  string
	A, B  accessRec
	Descr string
}

type hbTracker struct {
	r      *Run
	clocks map[int]vclock
	objs   map[interface{}]vclock
	cells  map[interface{}]*cellState
	races  []raceReport
	seen   map[string]bool
}

func newHB(r *Run) *hbTracker {
	h := &hbTracker{r: r, clocks: map[int]vclock{}, objs: map[interface{}]vclock{}, cells: map[interface{}]*cellState{}, seen: map[string]bool{}}
	for _, g := range r.gs {
		h.clocks[g.id] = h.fresh(g.id)
	}
	return h
}

func (h *hbTracker) fresh(id int) vclock {
	c := make(vclock, id+1)
	c[id] = 1
	return c
}

func (h *hbTracker) clk(g *G) vclock {
	c, ok := h.clocks[g.id]
	if !ok {
		c = h.fresh(g.id)
		h.clocks[g.id] = c
	}
	return c
}

func (h *hbTracker) tick(g *G) {
	c := h.clk(g)
	if len(c) <= g.id {
		nc := make(vclock, g.id+1)
		copy(nc, c)
		c = nc
	}
	c[g.id]++
	h.clocks[g.id] = c
}

func (h *hbTracker) spawn(parent, child *G) {
	if parent == nil {
		h.clocks[child.id] = h.fresh(child.id)
		return
	}
	c := join(h.clk(parent), h.fresh(child.id))
	h.clocks[child.id] = c
	h.tick(parent)
}

func (h *hbTracker) exit(g *G) {}

func (h *hbTracker) acquire(g *G, obj interface{}) {
	if c, ok := h.objs[obj]; ok {
		h.clocks[g.id] = join(h.clk(g), c)
	}
}

func (h *hbTracker) release(g *G, obj interface{}) {
	h.objs[obj] = join(h.objs[obj], h.clk(g))
	h.tick(g)
}

func (r *Run) hbAcquire(g *G, obj interface{}) {
	if r.hb != nil {
		r.hb.acquire(g, obj)
	}
}
func (r *Run) hbRelease(g *G, obj interface{}) {
	if r.hb != nil {
		r.hb.release(g, obj)
	}
}
func (r *Run) hbReleaseShared(g *G, obj interface{}) { r.hbRelease(g, obj) }
// Go memory model: an atomic operation that observes the effect of another is synchronised after it.
// A load only acquires, a store only releases, read-modify-write operations do both (two loads never
// synchronise with each other).
func (r *Run) hbAtomic(g *G, p Ptr) { // read-modify-write
	if r.hb != nil {
		r.hb.acquire(g, p)
		r.hb.release(g, p)
	}
}
func (r *Run) hbAtomicLoad(g *G, p Ptr) {
	if r.hb != nil {
		r.hb.acquire(g, p)
	}
}
func (r *Run) hbAtomicStore(g *G, p Ptr) {
	if r.hb != nil {
		r.hb.release(g, p)
	}
}
func (r *Run) hbChanSend(g *G, ch *ChanObj) {
	if r.hb != nil {
		r.hb.release(g, ch)
	}
}
func (r *Run) hbChanRecv(g *G, ch *ChanObj) {
	if r.hb != nil {
		r.hb.acquire(g, ch)
	}
}
func (r *Run) hbChanHandoff(sender, receiver *G, ch *ChanObj) {
	if r.hb != nil {
		// unbuffered rendezvous synchronises both ways
		cs, cr := r.hb.clk(sender), r.hb.clk(receiver)
		j := join(cs, cr)
		r.hb.clocks[sender.id] = append(vclock{}, j...)
		r.hb.clocks[receiver.id] = append(vclock{}, j...)
		r.hb.tick(sender)
		r.hb.tick(receiver)
	}
}

// access records a read/write of a heap cell or map object. A load or store of a whole struct / array
// is also an access to each of its fields / elements (two levels), so that it conflicts with field-wise
// accesses of another goroutine.
func (r *Run) access(g *G, cell interface{}, write bool, in ssa.Instruction) {
	if r.hb == nil || g == nil || g.id < 0 {
		return // (private goroutines of summarised callees only touch their arguments' locals)
	}
	if p, ok := cell.(Ptr); ok && p != nil && r.hbDepth < 2 {
		switch agg := (*p).(type) {
		case Struct:
			r.hbDepth++
			for i := range agg {
				r.access(g, Ptr(&agg[i]), write, in)
			}
			r.hbDepth--
		case Array:
			if len(agg) <= 8 {
				r.hbDepth++
				for i := range agg {
					r.access(g, Ptr(&agg[i]), write, in)
				}
				r.hbDepth--
			}
		}
	}
	h := r.hb
	// the Go-source models of badger / bigcache are atomic sections by assumption (DESIGN §2.6): their
	// internal maps are exempt; so are the harness' own accesses
	if len(g.stack) > 0 {
		fr := g.top()
		if fr.fn.Pkg != nil && strings.HasSuffix(fr.fn.Pkg.Pkg.Path(), "/verifrt") {
			return
		}
		if strings.HasPrefix(fr.fn.Name(), "VH_") || strings.HasPrefix(fr.fn.Name(), "vh") {
			return
		}
		if fr.fn.Parent() != nil && (strings.HasPrefix(fr.fn.Parent().Name(), "VH_") || strings.HasPrefix(fr.fn.Parent().Name(), "vh")) {
			return
		}
	}
	// stack-local cells (allocated by this frame and not escaped) would need escape
	// analysis; we only track cells once a second goroutine exists.
	if len(r.gs) < 2 {
		return
	}
	cs := h.cells[cell]
	if cs == nil {
		cs = &cellState{}
		h.cells[cell] = cs
	}
	now := &accessRec{g: g.id, clock: append(vclock{}, h.clk(g)...), write: write}
	if len(g.stack) > 0 {
		now.fn = g.top().fn.String()
		now.pos = r.curPos(g)
	}
	if hbDebug && (strings.Contains(now.fn, "runTruncate") || strings.Contains(now.fn, "signalTruncate")) {
		lw := "nil"
		if cs.lastWrite != nil {
			lw = fmt.Sprintf("g%d %v %s", cs.lastWrite.g, cs.lastWrite.clock, cs.lastWrite.fn)
		}
		fmt.Fprintf(os.Stderr, "HB %p g%d write=%v clock=%v fn=%s pos=%s lastWrite=%s\n", cell, g.id, write, now.clock, now.fn, now.pos, lw)
	}
	report := func(prev *accessRec) {
		key := fmt.Sprintf("%s|%s", prev.fn, now.fn)
		if h.seen[key] {
			return
		}
		h.seen[key] = true
		h.races = append(h.races, raceReport{Cell: fmt.Sprintf("%p", cell), A: *prev, B: *now,
			Descr: fmt.Sprintf("%s (%s, g%d) vs %s (%s, g%d)", prev.fn, prev.pos, prev.g, now.fn, now.pos, now.g)})
	}
	if cs.lastWrite != nil && cs.lastWrite.g != g.id && !cs.lastWrite.clock.leq(now.clock) {
		report(cs.lastWrite)
	}
	if write {
		for _, rd := range cs.reads {
			if rd.g != g.id && !rd.clock.leq(now.clock) {
				report(rd)
			}
		}
		cs.lastWrite = now
		cs.reads = nil
	} else {
		// keep one read per goroutine
		for i, rd := range cs.reads {
			if rd.g == g.id {
				cs.reads[i] = now
				return
			}
		}
		cs.reads = append(cs.reads, now)
	}
}
