package main

// Value domain of the executor (DESIGN A.1). Scalars are concrete Go values or
// *Term; the heap (pointers, slices' backing stores, maps, channels, closures,
// interfaces' dynamic types) is concrete.

import (
	"fmt"
	"go/types"
	"math/big"
	"strings"
	"sync/atomic"

	"golang.org/x/tools/go/ssa"
)

type Value interface{}

type Struct []Value
type Array []Value
type Tuple []Value
type Ptr = *Value

// Slice: a[0] is the first element; len(a) is the physical capacity.
// ln/cp are int64 or *Term. nil slice: a == nil.
type Slice struct {
	a  []Value
	ln Value
	cp Value
}

// SymStr is a string with symbolic bytes and/or symbolic length.
type SymStr struct {
	b []Value // bytes: int64 or *Term (uint8)
	n Value   // length: int64 or *Term, <= len(b)
}

type Iface struct {
	t types.Type // nil for the nil interface
	v Value
}

type Closure struct {
	fn  *ssa.Function
	env []Value
	// bound method closures etc. are ordinary ssa functions ($bound, $thunk)
}

type MapEntry struct {
	key, val Value
	live     bool
}
type MapObj struct {
	keyT, valT types.Type
	entries    []*MapEntry
	index      map[string]int // concrete keys -> entry
	nlive      int
	symbolic   bool // some key was not concretely hashable
	id         int
}

type ZVal struct{ t *Term } // unbounded integer (verifrt.Z)

// Opaque stands for the contents of model-backed library objects.
type Opaque struct {
	kind string
	id   int
}

type runtimeError struct{ msg string }

func (e runtimeError) Error() string { return "runtime error: " + e.msg }

// ---- basic kinds ----

func intInfo(t types.Type) (width int, signed bool, ok bool) {
	b, isB := t.Underlying().(*types.Basic)
	if !isB {
		return 0, false, false
	}
	switch b.Kind() {
	case types.Int8:
		return 8, true, true
	case types.Int16:
		return 16, true, true
	case types.Int32, types.UntypedRune:
		return 32, true, true
	case types.Int, types.Int64, types.UntypedInt:
		return 64, true, true
	case types.Uint8:
		return 8, false, true
	case types.Uint16:
		return 16, false, true
	case types.Uint32:
		return 32, false, true
	case types.Uint, types.Uint64, types.Uintptr:
		return 64, false, true
	}
	return 0, false, false
}

func normInt(v int64, width int, signed bool) int64 {
	if width == 64 {
		return v
	}
	sh := uint(64 - width)
	if signed {
		return (v << sh) >> sh
	}
	return int64((uint64(v) << sh) >> sh)
}

// bigOf returns the mathematical value of a normalised concrete int.
func bigOf(v int64, signed bool) *big.Int {
	if signed {
		return big.NewInt(v)
	}
	return new(big.Int).SetUint64(uint64(v))
}

func fromBig(k *big.Int, width int, signed bool) int64 {
	m := new(big.Int).Mod(k, pow2(64))
	return normInt(int64(m.Uint64()), width, signed)
}

// asTerm converts a scalar value of Go type t into a Term.
func asTerm(v Value, t types.Type) *Term {
	switch x := v.(type) {
	case *Term:
		return x
	case bool:
		return mkBool(x)
	case int64:
		w, s, ok := intInfo(t)
		if !ok {
			panic(fmt.Sprintf("asTerm: not an integer type %v", t))
		}
		return mkConst(bigOf(x, s), w, s)
	}
	panic(fmt.Sprintf("asTerm: %T", v))
}

func termToValue(t *Term) Value {
	switch {
	case t.isTrue():
		return true
	case t.isFalse():
		return false
	case t.isConst() && t.sort == SInt:
		return fromBig(t.k, t.width, t.signed)
	}
	return t
}

func isSymbolic(v Value) bool {
	switch v.(type) {
	case *Term, *SymStr:
		return true
	}
	return false
}

// ---- zero values ----

func zero(t types.Type) Value {
	switch u := t.Underlying().(type) {
	case *types.Basic:
		switch {
		case u.Info()&types.IsBoolean != 0:
			return false
		case u.Info()&types.IsInteger != 0:
			return int64(0)
		case u.Info()&types.IsFloat != 0:
			return float64(0)
		case u.Info()&types.IsString != 0:
			return ""
		case u.Kind() == types.UnsafePointer:
			return Ptr(nil)
		case u.Kind() == types.UntypedNil:
			return nil
		case u.Info()&types.IsComplex != 0:
			return complex128(0)
		}
		panic(fmt.Sprintf("zero: basic %v", u))
	case *types.Struct:
		if isZ(t) {
			return ZVal{mkZConst(big0)}
		}
		s := make(Struct, u.NumFields())
		for i := range s {
			s[i] = zero(u.Field(i).Type())
		}
		return s
	case *types.Array:
		n := u.Len()
		a := make(Array, n)
		if n > 0 {
			switch u.Elem().Underlying().(type) {
			case *types.Struct, *types.Array:
				for i := range a {
					a[i] = zero(u.Elem())
				}
			default:
				z := zero(u.Elem())
				for i := range a {
					a[i] = z
				}
			}
		}
		return a
	case *types.Pointer:
		return Ptr(nil)
	case *types.Slice:
		return Slice{ln: int64(0), cp: int64(0)}
	case *types.Map:
		return (*MapObj)(nil)
	case *types.Chan:
		return (*ChanObj)(nil)
	case *types.Signature:
		return (*Closure)(nil)
	case *types.Interface:
		return Iface{}
	case *types.Tuple:
		tu := make(Tuple, u.Len())
		for i := range tu {
			tu[i] = zero(u.At(i).Type())
		}
		return tu
	}
	panic(fmt.Sprintf("zero: %T %v", t.Underlying(), t))
}

func isZ(t types.Type) bool {
	n, ok := t.(*types.Named)
	return ok && n.Obj().Name() == "Z" && n.Obj().Pkg() != nil && strings.HasSuffix(n.Obj().Pkg().Path(), "/verifrt")
}

// ---- load / store / copy ----

func copyVal(v Value) Value {
	switch x := v.(type) {
	case Struct:
		c := make(Struct, len(x))
		for i, f := range x {
			c[i] = copyVal(f)
		}
		return c
	case Array:
		c := make(Array, len(x))
		for i, f := range x {
			c[i] = copyVal(f)
		}
		return c
	}
	return v
}

func loadVal(p Ptr) Value { return copyVal(*p) }

// storeVal writes v into *p preserving the identity of nested aggregate cells.
func storeVal(p Ptr, v Value) {
	switch x := v.(type) {
	case Struct:
		if dst, ok := (*p).(Struct); ok && len(dst) == len(x) {
			for i := range x {
				storeVal(&dst[i], x[i])
			}
			return
		}
		*p = copyVal(x)
	case Array:
		if dst, ok := (*p).(Array); ok && len(dst) == len(x) {
			for i := range x {
				storeVal(&dst[i], x[i])
			}
			return
		}
		*p = copyVal(x)
	default:
		*p = v
	}
}

// ---- equality ----

// eqValues returns bool or *Term.
func eqValues(a, b Value) Value {
	switch x := a.(type) {
	case nil:
		return b == nil
	case bool:
		switch y := b.(type) {
		case bool:
			return x == y
		case *Term:
			return termToValue(tIff(mkBool(x), y))
		}
	case int64:
		switch y := b.(type) {
		case int64:
			return x == y
		case *Term:
			return termToValue(tEqRaw(mkConst(bigOf(x, y.signed), y.width, y.signed), y))
		}
	case float64:
		if y, ok := b.(float64); ok {
			return x == y
		}
	case complex128:
		if y, ok := b.(complex128); ok {
			return x == y
		}
	case *Term:
		switch y := b.(type) {
		case *Term:
			if x.sort == SBool {
				return termToValue(tIff(x, y))
			}
			return termToValue(tEqRaw(x, y))
		case int64:
			return termToValue(tEqRaw(x, mkConst(bigOf(y, x.signed), x.width, x.signed)))
		case bool:
			return termToValue(tIff(x, mkBool(y)))
		}
	case string:
		switch y := b.(type) {
		case string:
			return x == y
		case *SymStr:
			return eqStr(strToSym(x), y)
		}
	case *SymStr:
		switch y := b.(type) {
		case string:
			return eqStr(x, strToSym(y))
		case *SymStr:
			return eqStr(x, y)
		}
	case Struct:
		y := b.(Struct)
		var acc Value = true
		for i := range x {
			acc = andValues(acc, eqValues(x[i], y[i]))
			if acc == false {
				return false
			}
		}
		return acc
	case Array:
		y := b.(Array)
		var acc Value = true
		for i := range x {
			acc = andValues(acc, eqValues(x[i], y[i]))
			if acc == false {
				return false
			}
		}
		return acc
	case Ptr:
		if y, ok := b.(Ptr); ok {
			return x == y
		}
		return false
	case *MapObj:
		y, _ := b.(*MapObj)
		return x == y
	case *ChanObj:
		y, _ := b.(*ChanObj)
		return x == y
	case *Closure:
		y, _ := b.(*Closure)
		return x == y // only comparisons with nil are legal
	case Iface:
		y, ok := b.(Iface)
		if !ok {
			return false
		}
		if x.t == nil || y.t == nil {
			return x.t == nil && y.t == nil
		}
		if !types.Identical(x.t, y.t) {
			return false
		}
		return eqValues(x.v, y.v)
	case ZVal:
		y := b.(ZVal)
		return termToValue(tEqRaw(x.t, y.t))
	case Slice:
		// only slice == nil is legal
		if y, ok := b.(Slice); ok {
			return x.a == nil && y.a == nil
		}
	case Opaque:
		y, ok := b.(Opaque)
		return ok && x == y
	}
	panic(fmt.Sprintf("eqValues: %T vs %T", a, b))
}

func andValues(a, b Value) Value {
	if x, ok := a.(bool); ok {
		if !x {
			return false
		}
		return b
	}
	if y, ok := b.(bool); ok {
		if !y {
			return false
		}
		return a
	}
	return termToValue(tAnd(a.(*Term), b.(*Term)))
}
func orValues(a, b Value) Value {
	if x, ok := a.(bool); ok {
		if x {
			return true
		}
		return b
	}
	if y, ok := b.(bool); ok {
		if y {
			return true
		}
		return a
	}
	return termToValue(tOr(a.(*Term), b.(*Term)))
}
func notValue(a Value) Value {
	if x, ok := a.(bool); ok {
		return !x
	}
	return termToValue(tNot(a.(*Term)))
}
func boolTerm(a Value) *Term {
	if x, ok := a.(bool); ok {
		return mkBool(x)
	}
	return a.(*Term)
}

// ---- strings ----

func strToSym(s string) *SymStr {
	b := make([]Value, len(s))
	for i := 0; i < len(s); i++ {
		b[i] = int64(s[i])
	}
	return &SymStr{b: b, n: int64(len(s))}
}

func byteTerm(v Value) *Term {
	switch x := v.(type) {
	case *Term:
		return x
	case int64:
		return mkConst(big.NewInt(x&0xff), 8, false)
	}
	panic(fmt.Sprintf("byteTerm %T", v))
}

func lenTerm(v Value) *Term {
	switch x := v.(type) {
	case *Term:
		return x
	case int64:
		return mkConst(big.NewInt(x), 64, true)
	}
	panic(fmt.Sprintf("lenTerm %T", v))
}

// normStr collapses a SymStr that is fully concrete into a Go string.
func normStr(s *SymStr) Value {
	n, ok := s.n.(int64)
	if !ok {
		return s
	}
	buf := make([]byte, n)
	for i := int64(0); i < n; i++ {
		c, ok := s.b[i].(int64)
		if !ok {
			if int64(len(s.b)) != n {
				return &SymStr{b: s.b[:n], n: n}
			}
			return s
		}
		buf[i] = byte(c)
	}
	return string(buf)
}

func eqStr(x, y *SymStr) Value {
	xn, xc := x.n.(int64)
	yn, yc := y.n.(int64)
	if xc && yc && xn != yn {
		return false
	}
	acc := tEqRaw(lenTerm(x.n), lenTerm(y.n))
	m := len(x.b)
	if len(y.b) < m {
		m = len(y.b)
	}
	for i := 0; i < m; i++ {
		if acc.isFalse() {
			return false
		}
		var e *Term
		tx, okx := x.b[i].(codecToken)
		ty, oky := y.b[i].(codecToken)
		if okx || oky {
			// ideal-codec tokens (DESIGN §2.6) compare by the value they carry
			if okx && oky && types.Identical(tx.t, ty.t) {
				e = boolTerm(eqValues(tx.v, ty.v))
			} else {
				e = tFalse
			}
		} else {
			e = tEqRaw(byteTerm(x.b[i]), byteTerm(y.b[i]))
		}
		if xc && int64(i) < xn {
			acc = tAnd(acc, e)
		} else {
			// position i counts only if i < len
			acc = tAnd(acc, tImplies(tLtRaw(mkConst(big.NewInt(int64(i)), 64, true), lenTerm(x.n)), e))
		}
	}
	return termToValue(acc)
}

// ---- map keys ----

// keyString returns a canonical string for a fully concrete hashable value.
func keyString(v Value, sb *strings.Builder) bool {
	switch x := v.(type) {
	case nil:
		sb.WriteString("N;")
	case bool:
		if x {
			sb.WriteString("T;")
		} else {
			sb.WriteString("F;")
		}
	case int64:
		fmt.Fprintf(sb, "i%d;", x)
	case float64:
		fmt.Fprintf(sb, "f%v;", x)
	case string:
		fmt.Fprintf(sb, "s%d:%s;", len(x), x)
	case Struct:
		sb.WriteString("{")
		for _, f := range x {
			if !keyString(f, sb) {
				return false
			}
		}
		sb.WriteString("}")
	case Array:
		sb.WriteString("[")
		for _, f := range x {
			if !keyString(f, sb) {
				return false
			}
		}
		sb.WriteString("]")
	case Ptr:
		fmt.Fprintf(sb, "p%p;", x)
	case *MapObj:
		fmt.Fprintf(sb, "m%p;", x)
	case *ChanObj:
		fmt.Fprintf(sb, "c%p;", x)
	case Iface:
		if x.t == nil {
			sb.WriteString("I0;")
			return true
		}
		fmt.Fprintf(sb, "I%s:", x.t.String())
		return keyString(x.v, sb)
	case Opaque:
		fmt.Fprintf(sb, "o%s%d;", x.kind, x.id)
	default:
		return false
	}
	return true
}

var mapCounter int64

func newMap(k, v types.Type) *MapObj {
	return &MapObj{keyT: k, valT: v, index: map[string]int{}, id: int(atomic.AddInt64(&mapCounter, 1))}
}

// describe is used for traces and error messages.
func describe(v Value) string {
	switch x := v.(type) {
	case *Term:
		var sb strings.Builder
		p := &printer{defined: map[int]string{}, out: &strings.Builder{}}
		sb.WriteString(p.ref(x))
		return "sym:" + sb.String()
	case Struct:
		parts := []string{}
		for _, f := range x {
			parts = append(parts, describe(f))
		}
		return "{" + strings.Join(parts, " ") + "}"
	case Array:
		if len(x) > 8 {
			return fmt.Sprintf("[%d]…", len(x))
		}
		parts := []string{}
		for _, f := range x {
			parts = append(parts, describe(f))
		}
		return "[" + strings.Join(parts, " ") + "]"
	case Iface:
		if x.t == nil {
			return "nil-iface"
		}
		return fmt.Sprintf("iface(%s %s)", x.t, describe(x.v))
	case Ptr:
		if x == nil {
			return "nil-ptr"
		}
		return fmt.Sprintf("ptr(%p)", x)
	case *SymStr:
		return fmt.Sprintf("symstr(len=%v,cells=%d)", x.n, len(x.b))
	case Slice:
		return fmt.Sprintf("slice(len=%v)", x.ln)
	}
	return fmt.Sprintf("%v", v)
}
