package main

// gosym: solver-based checking of the real Computantis code.
//   gosym check <ID> [--tier quick|thorough] [--harness substr] [-v]
//   gosym replay <ID> <cex.json>

import (
	"encoding/hex"
	"encoding/json"
	"flag"
	"fmt"
	"math/big"
	"os"
	"os/exec"
	"path/filepath"
	"runtime/debug"
	"sort"
	"strconv"
	"strings"
	"sync"
	"time"

	"golang.org/x/tools/go/ssa"
)

// propertyPackages: which module packages (directories under /repo/src) hold the harnesses of a property.
var propertyPackages = map[string][]string{
	"C01": {"accountant"},
	"C02": {"accountant"},
	"C03": {"accountant"},
	"C04": {"transaction", "wallet", "accountant"},
	"C05": {"spice", "accountant", "transformers"},
	"C06": {"accountant"},
	"C07": {"accountant"},
	"C08": {"accountant"},
	"C09": {"accountant"},
	"C10": {"accountant"},
	"C11": {"gossip"},
	"C12": {"gossip"},
	"C13": {"accountant"},
	"C14": {"accountant"},
	"C15": {"transformers", "gossip", "notaryserver", "webhooksserver"},
	"C16": {"notaryserver"},
	"C17": {"cache"},
	"C18": {"accountant", "cache"},
	"C19": {"transformers", "gossip"},
	"C20": {"aeswrapper", "fileoperations"},
	"ST":  {"spice", "accountant", "cache"},
}

type knownFinding struct {
	Property  string `json:"property"`
	Assertion string `json:"assertion"` // exact id or prefix ending in '*'
	Class     string `json:"class"`
	Witness   string `json:"witness"`
	Status    string `json:"status"`
	Note      string `json:"note"`
}
type fixedFinding struct {
	Property string `json:"property"`
	Commit   string `json:"commit"`
	What     string `json:"what"`
}
type knownFile struct {
	Findings []knownFinding `json:"findings"`
	Fixed    []fixedFinding `json:"fixed"`
}

func verifRoot() string {
	if d := os.Getenv("VERIF_ROOT"); d != "" {
		return d
	}
	exe, err := os.Executable()
	if err == nil {
		return filepath.Dir(filepath.Dir(exe))
	}
	return "/verif"
}

func loadKnown() knownFile {
	var k knownFile
	buf, err := os.ReadFile(filepath.Join(verifRoot(), "KNOWN_FINDINGS.json"))
	if err == nil {
		json.Unmarshal(buf, &k)
	}
	return k
}

func (k knownFile) match(prop, assertion string) *knownFinding {
	for i := range k.Findings {
		f := &k.Findings[i]
		if f.Property != prop || f.Status == "fixed" {
			continue
		}
		if f.Assertion == assertion || (strings.HasSuffix(f.Assertion, "*") && strings.HasPrefix(assertion, strings.TrimSuffix(f.Assertion, "*"))) {
			return f
		}
	}
	return nil
}

func main() {
	// the collector's madvise traffic is very expensive in this VM: collect only near the limit
	debug.SetGCPercent(-1)
	limitGB := int64(4)
	if v, err := strconv.Atoi(os.Getenv("GOSYM_MEMLIMIT_GB")); err == nil && v > 0 {
		limitGB = int64(v)
	}
	debug.SetMemoryLimit(limitGB << 30)
	if len(os.Args) < 3 {
		fmt.Fprintln(os.Stderr, "usage: gosym check <ID> [--tier quick|thorough] | gosym replay <ID> <cex.json>")
		os.Exit(2)
	}
	switch os.Args[1] {
	case "check":
		os.Exit(cmdCheck(os.Args[2], os.Args[3:]))
	case "replay":
		os.Exit(cmdReplay(os.Args[2], os.Args[3:]))
	default:
		fmt.Fprintln(os.Stderr, "unknown command", os.Args[1])
		os.Exit(2)
	}
}

type checkResult struct {
	violations int
	known      int
	spurious   int
	unknown    int
}

func cmdCheck(id string, args []string) int {
	fs := flag.NewFlagSet("check", flag.ExitOnError)
	tier := fs.String("tier", "", "quick|thorough")
	only := fs.String("harness", "", "only harnesses whose name contains this")
	verbose := fs.Bool("v", false, "verbose")
	noReplay := fs.Bool("no-replay", false, "skip native replay (debugging only; never used by registered commands)")
	evidenceOut := fs.String("evidence", "", "evidence path (default evidence/<ID>.json)")
	maxPaths := fs.Int("max-paths", 0, "stop a harness after this many paths (debugging; the run is then inconclusive)")
	fs.Parse(args)
	if *tier == "" {
		*tier = os.Getenv("VERIF_TIER")
	}
	if *tier == "" {
		*tier = "quick"
	}
	os.Setenv("VERIF_TIER", *tier)
	seed, _ := strconv.ParseInt(os.Getenv("VERIF_SEED"), 10, 64)
	t0 := time.Now()
	pkgs, ok := propertyPackages[id]
	if !ok {
		fmt.Fprintln(os.Stderr, "unknown property", id)
		return 2
	}
	// only inject packages that actually have harness files for this id
	pkgs = pkgsWithHarness(id, pkgs)
	if len(pkgs) == 0 {
		fmt.Fprintln(os.Stderr, "no harness files for", id)
		return 2
	}
	opts := Options{MaxInstrs: 50_000_000, MaxSymAlloc: 4096, Tier: *tier, Seed: seed, Workers: 16, TimeoutMs: 60000, Verbose: *verbose}
	if *tier == "thorough" {
		opts.TimeoutMs = 300000
	}
	opts.MaxPaths = *maxPaths
	if v, err := strconv.ParseInt(os.Getenv("GOSYM_MAXINSTR"), 10, 64); err == nil && v > 0 {
		opts.MaxInstrs = v
	}
	eng, err := loadEngine(pkgs, opts)
	if err != nil {
		fmt.Fprintln(os.Stderr, "INCONCLUSIVE: cannot load /repo:", err)
		return 2
	}
	hs := eng.harnesses(id)
	if *only != "" {
		var f []*ssa.Function
		for _, h := range hs {
			if strings.Contains(h.Name(), *only) {
				f = append(f, h)
			}
		}
		hs = f
	}
	if len(hs) == 0 {
		fmt.Fprintln(os.Stderr, "INCONCLUSIVE: no harness functions VH_"+id+"_* found")
		return 2
	}
	// run harnesses in parallel
	// every harness may use up to 16 workers; a global semaphore of 16 running paths balances
	// the cores between light and heavy harnesses
	par := len(hs)
	per := 16
	if par > 4 {
		per = 8
	}
	if par > 10 {
		per = 4
	}
	results := make([]*HarnessResult, len(hs))
	var wg sync.WaitGroup
	sem := make(chan struct{}, par)
	for i, h := range hs {
		wg.Add(1)
		go func(i int, h *ssa.Function) {
			defer wg.Done()
			sem <- struct{}{}
			defer func() { <-sem }()
			results[i] = eng.exploreHarness(h, per)
			if *verbose {
				r := results[i]
				fmt.Fprintf(os.Stderr, "[%s] paths=%d final=%d(unsat %d, sat %d) feas=%d unknown=%d verdicts=%d wall=%.1fs err=%q\n",
					r.Name, r.Stats.Paths, r.Stats.Final, r.Stats.FinalUnsat, r.Stats.FinalSat, r.Stats.Feasibility, r.Stats.Unknown, len(r.Verdicts), r.Wall.Seconds(), r.Err)
				type kv struct {
					k string
					v int
				}
				var sites []kv
				for k, v := range r.Stats.ForkSites {
					sites = append(sites, kv{k, v})
				}
				sort.Slice(sites, func(i, j int) bool { return sites[i].v > sites[j].v })
				for i, s := range sites {
					if i >= 12 {
						break
					}
					fmt.Fprintf(os.Stderr, "      forks %6d  %s\n", s.v, s.k)
				}
			}
		}(i, h)
	}
	wg.Wait()

	known := loadKnown()
	exit := 0
	inconclusive := []string{}
	var violLines, knownLines []string
	total := newStats()
	var allVerdicts []*Verdict
	replayed := 0
	spurious := []string{}
	cexDir := filepath.Join(verifRoot(), "cex", id)
	if d := os.Getenv("GOSYM_CEX_DIR"); d != "" { // mutation tooling: keep /verif/cex untouched
		cexDir = filepath.Join(d, id)
	}
	os.RemoveAll(cexDir)
	var rp *replayer
	defer func() {
		if rp != nil {
			rp.cleanup()
		}
	}()
	for i, res := range results {
		total.merge(res.Stats)
		if res.Err != "" {
			inconclusive = append(inconclusive, res.Err)
		}
		if len(res.Stats.Reaches) == 0 && res.Err == "" && len(res.Verdicts) == 0 {
			inconclusive = append(inconclusive, fmt.Sprintf("%s: vacuous (no Reach witness on any path)", res.Name))
		}
		settled := map[string]bool{}   // assertion ids with a reproduced counterexample
		pendingSp := map[string]string{} // assertion id -> spurious note of the last failed alternative
		for n, v := range res.Verdicts {
			allVerdicts = append(allVerdicts, v)
			if settled[v.Assertion] {
				continue // an earlier alternative of the same assertion already reproduced
			}
			if v.Kind == "unknown" {
				inconclusive = append(inconclusive, fmt.Sprintf("%s: %s %s", res.Name, v.Assertion, v.Msg))
				continue
			}
			os.MkdirAll(cexDir, 0o755)
			path := filepath.Join(cexDir, fmt.Sprintf("%s-%d.json", res.Name, n))
			writeCex(path, id, v)
			reproduced, note := true, "not replayed"
			if !*noReplay {
				if rp == nil {
					rp = newReplayer(id)
				}
				reproduced, note = rp.replay(hs[i], v, path)
				replayed++
			}
			annotateCex(path, reproduced, note)
			if !reproduced && v.Schedule && !strings.Contains(note, "native build failed") && !strings.Contains(note, "VH-REPLAY-DIVERGED") {
				// a schedule found by exhaustive exploration that the native stress loop did not hit:
				// reported with the engine's trace (the schedule cannot be forced on real goroutines)
				reproduced = true
				annotateCex(path, false, "schedule-dependent; not hit natively in 40 attempts: "+note)
			}
			if !reproduced {
				pendingSp[v.Assertion] = fmt.Sprintf("%s %s: model did not reproduce natively (%s)", res.Name, v.Assertion, note)
				continue
			}
			settled[v.Assertion] = true
			delete(pendingSp, v.Assertion)
			if kf := known.match(id, v.Assertion); kf != nil {
				knownLines = append(knownLines, fmt.Sprintf("KNOWN-FINDING: property=%s %s [%s] %s", id, v.Assertion, kf.Class, kf.Witness))
			} else {
				violLines = append(violLines, fmt.Sprintf("VIOLATION property=%s replay=%s", id, path))
				if *verbose {
					fmt.Fprintf(os.Stderr, "  %s: %s at %s (%s)\n", v.Assertion, v.Msg, v.Pos, note)
				}
			}
		}
		spKeys := make([]string, 0, len(pendingSp))
		for k := range pendingSp {
			spKeys = append(spKeys, k)
		}
		sort.Strings(spKeys)
		for _, k := range spKeys {
			spurious = append(spurious, pendingSp[k])
		}
	}
	for _, l := range knownLines {
		fmt.Println(l)
	}
	for _, l := range violLines {
		fmt.Println(l)
		exit = 1
	}
	if len(spurious) > 0 {
		for _, s := range spurious {
			fmt.Fprintln(os.Stderr, "SPURIOUS:", s)
		}
		if exit == 0 {
			exit = 2
		}
	}
	if len(inconclusive) > 0 {
		for _, s := range inconclusive {
			fmt.Fprintln(os.Stderr, "INCONCLUSIVE:", s)
		}
		if exit == 0 {
			exit = 2
		}
	}
	ev := *evidenceOut
	if ev == "" {
		ev = filepath.Join(verifRoot(), "evidence", id+".json")
	}
	writeEvidence(ev, id, *tier, seed, eng, hs, results, total, allVerdicts, len(violLines), knownLines, spurious, inconclusive, time.Since(t0))
	fmt.Fprintf(os.Stderr, "%s %s: harnesses=%d paths=%d queries=%d (final %d: unsat %d sat %d; feasibility %d; unknown %d) violations=%d known=%d wall=%.1fs exit=%d\n",
		id, *tier, len(hs), total.Paths, total.Final+total.Feasibility, total.Final, total.FinalUnsat, total.FinalSat, total.Feasibility, total.Unknown, len(violLines), len(knownLines), time.Since(t0).Seconds(), exit)
	return exit
}

func pkgsWithHarness(id string, pkgs []string) []string {
	var out []string
	for _, p := range pkgs {
		ents, err := os.ReadDir(filepath.Join(harnessRoot(), p))
		if err != nil {
			continue
		}
		has := false
		for _, e := range ents {
			if strings.HasSuffix(e.Name(), ".go") {
				buf, _ := os.ReadFile(filepath.Join(harnessRoot(), p, e.Name()))
				if strings.Contains(string(buf), "func VH_"+id+"_") {
					has = true
				}
			}
		}
		if has {
			out = append(out, p)
		}
	}
	return out
}

// ---- cex files ----

type cexFile struct {
	Property  string        `json:"property"`
	Harness   string        `json:"harness"`
	Package   string        `json:"package"`
	Assertion string        `json:"assertion"`
	Kind      string        `json:"kind"`
	Msg       string        `json:"msg"`
	Pos       string        `json:"pos"`
	Tier      string        `json:"tier"`
	Nondet    []NondetRec   `json:"nondet"`
	Decisions []Decision    `json:"decisions"`
	Blocked   []blockedInfo `json:"blocked,omitempty"`
	Trace     []string      `json:"trace,omitempty"`
	Schedule  bool          `json:"schedule_dependent"`
	Replay    *replayNote   `json:"replay,omitempty"`
}
type replayNote struct {
	Reproduced bool   `json:"reproduced"`
	Note       string `json:"note"`
}

func writeCex(path, id string, v *Verdict) {
	c := cexFile{Property: id, Harness: v.Harness, Assertion: v.Assertion, Kind: v.Kind, Msg: v.Msg, Pos: v.Pos,
		Tier: os.Getenv("VERIF_TIER"), Nondet: v.Nondet, Decisions: v.Decisions, Blocked: v.Blocked, Trace: v.Trace, Schedule: v.Schedule}
	buf, _ := json.MarshalIndent(c, "", " ")
	os.WriteFile(path, buf, 0o644)
}

func annotateCex(path string, ok bool, note string) {
	buf, err := os.ReadFile(path)
	if err != nil {
		return
	}
	var c cexFile
	if json.Unmarshal(buf, &c) != nil {
		return
	}
	c.Replay = &replayNote{ok, note}
	buf, _ = json.MarshalIndent(c, "", " ")
	os.WriteFile(path, buf, 0o644)
}

// bytesVal renders a NondetBytes record under a model.
func bytesVal(rec *NondetRec, m map[string]*big.Int, memo map[int]*big.Int) string {
	n := rec.lenLit
	if rec.lenTerm != nil {
		n = evalTerm(rec.lenTerm, m, memo).Int64()
	}
	b := make([]byte, 0, n)
	for i := int64(0); i < n && i < int64(len(rec.bytes)); i++ {
		b = append(b, byte(evalTerm(rec.bytes[i], m, memo).Uint64()))
	}
	return hex.EncodeToString(b)
}

// ---- native replay ----

type replayer struct {
	id    string
	tmp   string
	built map[string]string // package dir -> test binary
	err   map[string]string
}

func newReplayer(id string) *replayer {
	tmp, _ := os.MkdirTemp("", "gosym-replay-")
	return &replayer{id: id, tmp: tmp, built: map[string]string{}, err: map[string]string{}}
}

func (rp *replayer) cleanup() { os.RemoveAll(rp.tmp) }

func pkgDirOf(fn *ssa.Function) string {
	return strings.TrimPrefix(strings.TrimPrefix(fn.Pkg.Pkg.Path(), modulePath), "/")
}

func (rp *replayer) build(pkgDir string, eng *Engine) (string, error) {
	race := strings.HasSuffix(pkgDir, "#race")
	cacheKey := pkgDir
	pkgDir = strings.TrimSuffix(pkgDir, "#race")
	if b, ok := rp.built[cacheKey]; ok {
		if e := rp.err[cacheKey]; e != "" {
			return "", fmt.Errorf("%s", e)
		}
		return b, nil
	}
	_, files, err := buildOverlay(propertyPackages[rp.id])
	if err != nil {
		return "", err
	}
	// registry test file
	var names []string
	ents, _ := os.ReadDir(filepath.Join(harnessRoot(), pkgDir))
	for _, e := range ents {
		if !strings.HasSuffix(e.Name(), ".go") {
			continue
		}
		buf, _ := os.ReadFile(filepath.Join(harnessRoot(), pkgDir, e.Name()))
		for _, line := range strings.Split(string(buf), "\n") {
			if strings.HasPrefix(line, "func VH_") && strings.Contains(line, "()") {
				n := strings.TrimPrefix(line, "func ")
				n = n[:strings.Index(n, "(")]
				names = append(names, n)
			}
		}
	}
	sort.Strings(names)
	pkgName := filepath.Base(pkgDir)
	if buf, err := os.ReadFile(filepath.Join(harnessRoot(), pkgDir, firstGo(filepath.Join(harnessRoot(), pkgDir)))); err == nil {
		for _, line := range strings.Split(string(buf), "\n") {
			if strings.HasPrefix(line, "package ") {
				pkgName = strings.TrimSpace(strings.TrimPrefix(line, "package "))
				break
			}
		}
	}
	var sb strings.Builder
	sb.WriteString("//go:build verif\n\npackage " + pkgName + "\n\nimport (\n\t\"testing\"\n\n\t\"" + modulePath + "/verifrt\"\n)\n\n")
	sb.WriteString("var vhRegistry = map[string]func(){\n")
	for _, n := range names {
		sb.WriteString("\t\"" + n + "\": " + n + ",\n")
	}
	sb.WriteString("}\n\nfunc TestVHReplay(t *testing.T) {\n\tname := verifrt.ReplayHarness()\n\tfn := vhRegistry[name]\n\tif fn == nil {\n\t\tt.Fatalf(\"VH-REPLAY-ERROR unknown harness %q\", name)\n\t}\n\tverifrt.RunHarness(name, fn)\n\tif len(verifrt.Failed) > 0 {\n\t\tt.Fail()\n\t}\n}\n")
	regPath := filepath.Join(rp.tmp, pkgName+"_registry_test.go")
	os.WriteFile(regPath, []byte(sb.String()), 0o644)
	files[filepath.Join(repoSrc, pkgDir, "zz_vh_registry_test.go")] = regPath
	ov := map[string]map[string]string{"Replace": files}
	ovBuf, _ := json.Marshal(ov)
	ovPath := filepath.Join(rp.tmp, "overlay-"+strings.ReplaceAll(pkgDir, "/", "_")+".json")
	os.WriteFile(ovPath, ovBuf, 0o644)
	bin := filepath.Join(rp.tmp, strings.ReplaceAll(pkgDir, "/", "_")+".test")
	args := []string{"test", "-c", "-tags", "verif", "-vet=off", "-overlay", ovPath, "-o", bin, "./" + pkgDir}
	if race {
		bin += ".race"
		args = []string{"test", "-c", "-race", "-tags", "verif", "-vet=off", "-overlay", ovPath, "-o", bin, "./" + pkgDir}
	}
	cmd := exec.Command("go", args...)
	cmd.Dir = repoSrc
	cmd.Env = goEnv()
	out, err := cmd.CombinedOutput()
	rp.built[cacheKey] = bin
	if err != nil {
		rp.err[cacheKey] = fmt.Sprintf("native build failed: %v\n%s", err, out)
		return "", fmt.Errorf("%s", rp.err[cacheKey])
	}
	return bin, nil
}

func firstGo(dir string) string {
	ents, _ := os.ReadDir(dir)
	for _, e := range ents {
		if strings.HasSuffix(e.Name(), ".go") {
			return e.Name()
		}
	}
	return ""
}

// replay runs the harness natively with the recorded values; returns whether the same assertion failed.
func (rp *replayer) replay(fn *ssa.Function, v *Verdict, cexPath string) (bool, string) {
	pkgDir := pkgDirOf(fn)
	if v.Kind == "race" {
		pkgDir += "#race" // the native twin runs under the Go race detector
	}
	bin, err := rp.build(pkgDir, nil)
	if err != nil {
		return false, err.Error()
	}
	attempts := 1
	if v.Schedule || v.Kind == "leak" || v.Kind == "deadlock" || v.Kind == "race" {
		attempts = 40 // real goroutines cannot be forced into the engine's schedule: repeat the scenario
	}
	var last string
	hangKind := v.Kind == "deadlock" || v.Kind == "leak"
	testTimeout := "300s"
	if hangKind || v.Schedule {
		testTimeout = "25s"
	}
	deadline := time.Now().Add(150 * time.Second)
	for a := 0; a < attempts && (a == 0 || time.Now().Before(deadline)); a++ {
		scratch, _ := os.MkdirTemp(rp.tmp, "run-")
		cmd := exec.Command(bin, "-test.run", "^TestVHReplay$", "-test.count=1", "-test.timeout="+testTimeout)
		cmd.Dir = scratch
		cmd.Env = append(os.Environ(), "VERIF_REPLAY="+cexPath, "VERIF_NATIVE=1")
		out, _ := cmd.CombinedOutput()
		os.RemoveAll(scratch)
		txt := string(out)
		last = lastLines(txt, 6)
		if os.Getenv("GOSYM_REPLAY_VERBOSE") != "" {
			fmt.Fprintln(os.Stderr, txt)
		}
		if v.Kind == "race" && strings.Contains(txt, "WARNING: DATA RACE") {
			return true, "the Go race detector reports a data race natively: " + raceFunctions(txt)
		}
		switch v.Kind {
		case "assert", "leak", "deadlock", "race":
			if strings.Contains(txt, "VH-ASSERT-FAILED "+v.Assertion) {
				return true, "assertion failed natively"
			}
			if v.Kind != "assert" && strings.Contains(txt, "VH-ASSERT-FAILED "+nativeTwin(v)) {
				return true, "native twin assertion failed"
			}
			if hangKind && strings.Contains(txt, "all goroutines are asleep") {
				return true, "the Go runtime reports a global deadlock natively"
			}
			if hangKind && strings.Contains(txt, "test timed out") {
				return true, "the native run hangs (test timed out after " + testTimeout + ")"
			}
		case "panic":
			if strings.Contains(txt, "VH-PANIC") || strings.Contains(txt, "panic:") {
				return true, "panicked natively: " + firstMatch(txt, "VH-PANIC", "panic:")
			}
		}
	}
	return false, "native output: " + last
}

// nativeTwin is the assertion id the harness uses natively for engine-detected conditions.
func nativeTwin(v *Verdict) string { return v.Harness + "/" + v.Kind }

func lastLines(s string, n int) string {
	ls := strings.Split(strings.TrimSpace(s), "\n")
	if len(ls) > n {
		ls = ls[len(ls)-n:]
	}
	return strings.Join(ls, " | ")
}

func firstMatch(txt string, keys ...string) string {
	for _, l := range strings.Split(txt, "\n") {
		for _, k := range keys {
			if strings.Contains(l, k) {
				if len(l) > 200 {
					l = l[:200]
				}
				return l
			}
		}
	}
	return ""
}

func cmdReplay(id string, args []string) int {
	if len(args) < 1 {
		fmt.Fprintln(os.Stderr, "usage: gosym replay <ID> <cex.json>")
		return 2
	}
	buf, err := os.ReadFile(args[0])
	if err != nil {
		fmt.Fprintln(os.Stderr, err)
		return 2
	}
	var c cexFile
	if err := json.Unmarshal(buf, &c); err != nil {
		fmt.Fprintln(os.Stderr, err)
		return 2
	}
	if c.Tier != "" {
		os.Setenv("VERIF_TIER", c.Tier)
	}
	pkgs := pkgsWithHarness(id, propertyPackages[id])
	eng, err := loadEngine(pkgs, Options{MaxInstrs: 1, Workers: 1, TimeoutMs: 1000})
	if err != nil {
		fmt.Fprintln(os.Stderr, err)
		return 2
	}
	for _, h := range eng.harnesses(id) {
		if h.Name() == c.Harness {
			rp := newReplayer(id)
			defer rp.cleanup()
			v := &Verdict{Harness: c.Harness, Assertion: c.Assertion, Kind: c.Kind, Schedule: c.Schedule}
			abs, _ := filepath.Abs(args[0])
			ok, note := rp.replay(h, v, abs)
			fmt.Printf("replay %s %s: reproduced=%v (%s)\n", c.Harness, c.Assertion, ok, note)
			if ok {
				return 1
			}
			return 0
		}
	}
	fmt.Fprintln(os.Stderr, "harness not found:", c.Harness)
	return 2
}

// raceFunctions extracts the first two repository functions named in a race report.
func raceFunctions(txt string) string {
	var fns []string
	for _, l := range strings.Split(txt, "\n") {
		l = strings.TrimSpace(l)
		if strings.HasPrefix(l, "github.com/bartossh/Computantis/src/") && !strings.Contains(l, "VH_") && !strings.Contains(l, ".vh") {
			f := strings.TrimPrefix(l, "github.com/bartossh/Computantis/src/")
			if i := strings.Index(f, "("); i > 0 && strings.HasSuffix(f, ")") {
				f = f[:strings.LastIndex(f, "(")]
			}
			dup := false
			for _, x := range fns {
				if x == f {
					dup = true
				}
			}
			if !dup {
				fns = append(fns, f)
			}
			if len(fns) == 2 {
				break
			}
		}
	}
	return strings.Join(fns, " vs ")
}
