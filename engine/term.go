package main

// Symbolic terms. Every integer term denotes the *mathematical* value of a Go
// fixed-width integer (int-wrap encoding, DESIGN §2.3): the SMT sort is Int, and
// every arithmetic constructor re-establishes the range of the Go type with an
// explicit wrap. Z terms are unbounded integers (harness-side reference
// arithmetic) and never wrap. Terms are immutable and carry static bounds
// (lo, hi) that let constructors skip wraps that cannot happen.

import (
	"crypto/sha256"
	"fmt"
	"math/big"
	"strings"
	"sync/atomic"
)

type Sort int

const (
	SBool Sort = iota
	SInt       // Go integer of (width, signed)
	SZ         // unbounded integer
)

type Term struct {
	id     int
	op     string // "var","const","+","-","*","div","mod","ite","and","or","not","=","<","<=","neg", "true","false"
	args   []*Term
	k      *big.Int // const
	name   string   // var
	sort   Sort
	width  int
	signed bool
	lo, hi *big.Int // static bounds for SInt/SZ (nil = unknown for SZ)
	str    string   // cached smt text when small (leaf)
	h      [16]byte // structural hash (exactly what the printer emits), see hashTerm
	hok    bool
}

var termCounter int64

func nextTermID() int { return int(atomic.AddInt64(&termCounter, 1)) }

var (
	big0 = big.NewInt(0)
	big1 = big.NewInt(1)
)

func pow2(w int) *big.Int { return new(big.Int).Lsh(big1, uint(w)) }

func typeRange(width int, signed bool) (*big.Int, *big.Int) {
	if signed {
		h := pow2(width - 1)
		return new(big.Int).Neg(h), new(big.Int).Sub(h, big1)
	}
	return big.NewInt(0), new(big.Int).Sub(pow2(width), big1)
}

var tTrue = &Term{id: -1, op: "true", sort: SBool}
var tFalse = &Term{id: -2, op: "false", sort: SBool}

func mkBool(b bool) *Term {
	if b {
		return tTrue
	}
	return tFalse
}

func (t *Term) isConst() bool { return t.op == "const" }
func (t *Term) isTrue() bool  { return t.op == "true" }
func (t *Term) isFalse() bool { return t.op == "false" }

func mkConst(k *big.Int, width int, signed bool) *Term {
	return &Term{id: nextTermID(), op: "const", k: k, sort: SInt, width: width, signed: signed, lo: k, hi: k}
}
func mkZConst(k *big.Int) *Term {
	return &Term{id: nextTermID(), op: "const", k: k, sort: SZ, lo: k, hi: k}
}

func mkVar(name string, width int, signed bool) *Term {
	lo, hi := typeRange(width, signed)
	return &Term{id: nextTermID(), op: "var", name: name, sort: SInt, width: width, signed: signed, lo: lo, hi: hi}
}
func mkBoolVar(name string) *Term {
	return &Term{id: nextTermID(), op: "var", name: name, sort: SBool}
}

func node(op string, sort Sort, width int, signed bool, args ...*Term) *Term {
	return &Term{id: nextTermID(), op: op, args: args, sort: sort, width: width, signed: signed}
}

// ---- boolean constructors ----

func tNot(a *Term) *Term {
	switch {
	case a.isTrue():
		return tFalse
	case a.isFalse():
		return tTrue
	case a.op == "not":
		return a.args[0]
	}
	return node("not", SBool, 0, false, a)
}
func tAnd(a, b *Term) *Term {
	switch {
	case a.isFalse() || b.isFalse():
		return tFalse
	case a.isTrue():
		return b
	case b.isTrue():
		return a
	case a == b:
		return a
	}
	return node("and", SBool, 0, false, a, b)
}
func tOr(a, b *Term) *Term {
	switch {
	case a.isTrue() || b.isTrue():
		return tTrue
	case a.isFalse():
		return b
	case b.isFalse():
		return a
	case a == b:
		return a
	}
	return node("or", SBool, 0, false, a, b)
}
func tImplies(a, b *Term) *Term { return tOr(tNot(a), b) }
func tIff(a, b *Term) *Term {
	if a.isTrue() {
		return b
	}
	if b.isTrue() {
		return a
	}
	if a.isFalse() {
		return tNot(b)
	}
	if b.isFalse() {
		return tNot(a)
	}
	if a == b {
		return tTrue
	}
	return node("=", SBool, 0, false, a, b)
}

// ---- integer helpers ----

func bounded(t *Term) bool { return t.lo != nil && t.hi != nil }

func setBounds(t *Term, lo, hi *big.Int) *Term { t.lo, t.hi = lo, hi; return t }

func minBig(a, b *big.Int) *big.Int {
	if a.Cmp(b) <= 0 {
		return a
	}
	return b
}
func maxBig(a, b *big.Int) *big.Int {
	if a.Cmp(b) >= 0 {
		return a
	}
	return b
}

// raw (non-wrapping) arithmetic on Int-sorted terms, with bounds.
func rawAdd(a, b *Term) *Term {
	if a.isConst() && b.isConst() {
		return &Term{id: nextTermID(), op: "const", k: new(big.Int).Add(a.k, b.k), sort: SZ}
	}
	if a.isConst() && a.k.Sign() == 0 {
		return b
	}
	if b.isConst() && b.k.Sign() == 0 {
		return a
	}
	t := node("+", SZ, 0, false, a, b)
	if bounded(a) && bounded(b) {
		t.lo, t.hi = new(big.Int).Add(a.lo, b.lo), new(big.Int).Add(a.hi, b.hi)
	}
	return t
}
func rawSub(a, b *Term) *Term {
	if a.isConst() && b.isConst() {
		return &Term{id: nextTermID(), op: "const", k: new(big.Int).Sub(a.k, b.k), sort: SZ}
	}
	if b.isConst() && b.k.Sign() == 0 {
		return a
	}
	t := node("-", SZ, 0, false, a, b)
	if bounded(a) && bounded(b) {
		t.lo, t.hi = new(big.Int).Sub(a.lo, b.hi), new(big.Int).Sub(a.hi, b.lo)
	}
	return t
}
func rawMul(a, b *Term) *Term {
	if a.isConst() && b.isConst() {
		return &Term{id: nextTermID(), op: "const", k: new(big.Int).Mul(a.k, b.k), sort: SZ}
	}
	t := node("*", SZ, 0, false, a, b)
	if bounded(a) && bounded(b) {
		c := []*big.Int{new(big.Int).Mul(a.lo, b.lo), new(big.Int).Mul(a.lo, b.hi), new(big.Int).Mul(a.hi, b.lo), new(big.Int).Mul(a.hi, b.hi)}
		lo, hi := c[0], c[0]
		for _, x := range c[1:] {
			lo, hi = minBig(lo, x), maxBig(hi, x)
		}
		t.lo, t.hi = lo, hi
	}
	return t
}

// fixKind finalises a raw term as a constant of the right kind.
func constOf(t *Term) (*big.Int, bool) {
	if t.op == "const" {
		return t.k, true
	}
	return nil, false
}

// wrap brings a raw integer term into the range of (width, signed).
func wrap(t *Term, width int, signed bool) *Term {
	lo, hi := typeRange(width, signed)
	if k, ok := constOf(t); ok {
		m := pow2(width)
		r := new(big.Int).Mod(k, m)
		if signed && r.Cmp(hi) > 0 {
			r.Sub(r, m)
		}
		return mkConst(r, width, signed)
	}
	if bounded(t) && t.lo.Cmp(lo) >= 0 && t.hi.Cmp(hi) <= 0 {
		// in range already: retype only
		if t.sort == SInt && t.width == width && t.signed == signed {
			return t
		}
		r := *t
		r.id = nextTermID()
		r.op, r.args = "id", []*Term{t}
		r.sort, r.width, r.signed = SInt, width, signed
		r.str = ""
		return &r
	}
	m := pow2(width)
	mt := mkZConst(m)
	var r *Term
	if bounded(t) && !signed && t.lo.Sign() >= 0 && t.hi.Cmp(new(big.Int).Add(hi, m)) <= 0 {
		// one conditional subtraction suffices
		r = node("ite", SInt, width, signed, tLeRaw(mt, t), rawSub(t, mt), t)
	} else if bounded(t) && !signed && t.hi.Cmp(hi) <= 0 && t.lo.Cmp(new(big.Int).Neg(m)) >= 0 {
		r = node("ite", SInt, width, signed, tLtRaw(t, mkZConst(big0)), rawAdd(t, mt), t)
	} else if !signed {
		r = node("mod", SInt, width, signed, t, mt)
	} else {
		h := mkZConst(pow2(width - 1))
		r = node("-", SInt, width, signed, node("mod", SZ, 0, false, rawAdd(t, h), mt), h)
	}
	r.sort, r.width, r.signed = SInt, width, signed
	r.lo, r.hi = lo, hi
	if bounded(t) {
		// keep tighter bounds when the input did not straddle the range
		if t.lo.Cmp(lo) >= 0 && t.hi.Cmp(hi) <= 0 {
			r.lo, r.hi = t.lo, t.hi
		}
	}
	return r
}

func tLtRaw(a, b *Term) *Term {
	if a.isConst() && b.isConst() {
		return mkBool(a.k.Cmp(b.k) < 0)
	}
	if bounded(a) && bounded(b) {
		if a.hi.Cmp(b.lo) < 0 {
			return tTrue
		}
		if a.lo.Cmp(b.hi) >= 0 {
			return tFalse
		}
	}
	return node("<", SBool, 0, false, a, b)
}
func tLeRaw(a, b *Term) *Term {
	if a.isConst() && b.isConst() {
		return mkBool(a.k.Cmp(b.k) <= 0)
	}
	if bounded(a) && bounded(b) {
		if a.hi.Cmp(b.lo) <= 0 {
			return tTrue
		}
		if a.lo.Cmp(b.hi) > 0 {
			return tFalse
		}
	}
	return node("<=", SBool, 0, false, a, b)
}
func tEqRaw(a, b *Term) *Term {
	if a == b {
		return tTrue
	}
	if a.isConst() && b.isConst() {
		return mkBool(a.k.Cmp(b.k) == 0)
	}
	if bounded(a) && bounded(b) {
		if a.hi.Cmp(b.lo) < 0 || b.hi.Cmp(a.lo) < 0 {
			return tFalse
		}
	}
	return node("=", SBool, 0, false, a, b)
}

func tIte(c, a, b *Term) *Term {
	if c.isTrue() {
		return a
	}
	if c.isFalse() {
		return b
	}
	if a == b {
		return a
	}
	if a.sort == SBool {
		return tOr(tAnd(c, a), tAnd(tNot(c), b))
	}
	if a.isConst() && b.isConst() && a.k.Cmp(b.k) == 0 {
		return a
	}
	t := node("ite", a.sort, a.width, a.signed, c, a, b)
	if bounded(a) && bounded(b) {
		t.lo, t.hi = minBig(a.lo, b.lo), maxBig(a.hi, b.hi)
	}
	return t
}

// Go-typed arithmetic (both operands of the same Go type).
func tArith(op string, a, b *Term) (*Term, error) {
	w, s := a.width, a.signed
	switch op {
	case "+":
		return wrap(rawAdd(a, b), w, s), nil
	case "-":
		return wrap(rawSub(a, b), w, s), nil
	case "*":
		return wrap(rawMul(a, b), w, s), nil
	case "/", "%":
		if b.isConst() && b.k.Sign() == 0 {
			return nil, fmt.Errorf("division by zero constant")
		}
		if a.isConst() && b.isConst() {
			q, r := new(big.Int).QuoRem(a.k, b.k, new(big.Int))
			if op == "/" {
				return wrap(mkZConst(q), w, s), nil
			}
			return mkConst(r, w, s), nil
		}
		nonneg := bounded(a) && a.lo.Sign() >= 0 && bounded(b) && b.lo.Sign() > 0
		if !s || nonneg {
			// euclidean == truncated for non-negative operands
			if op == "/" {
				t := node("div", SInt, w, s, a, b)
				t.lo, t.hi = big0, a.hi
				if !bounded(a) {
					t.lo, t.hi = typeRange(w, s)
				}
				return t, nil
			}
			t := node("mod", SInt, w, s, a, b)
			t.lo = big0
			if bounded(b) {
				t.hi = new(big.Int).Sub(b.hi, big1)
			} else {
				_, t.hi = typeRange(w, s)
			}
			return t, nil
		}
		// signed truncated division, general case
		absA := tIte(tLtRaw(a, mkZConst(big0)), rawSub(mkZConst(big0), a), a)
		absB := tIte(tLtRaw(b, mkZConst(big0)), rawSub(mkZConst(big0), b), b)
		q := node("div", SZ, 0, false, absA, absB)
		r := node("mod", SZ, 0, false, absA, absB)
		sameSign := tIff(tLtRaw(a, mkZConst(big0)), tLtRaw(b, mkZConst(big0)))
		lo, hi := typeRange(w, s)
		if op == "/" {
			t := tIte(sameSign, q, node("neg", SZ, 0, false, q))
			t = wrap(setBounds(t, new(big.Int).Sub(lo, big1), new(big.Int).Add(hi, big1)), w, s)
			return t, nil
		}
		t := tIte(tLtRaw(a, mkZConst(big0)), node("neg", SZ, 0, false, r), r)
		t.sort, t.width, t.signed = SInt, w, s
		t.lo, t.hi = lo, hi
		return t, nil
	}
	return nil, fmt.Errorf("unsupported symbolic operator %s", op)
}

// bit operations with one constant operand that have a linear meaning.
func tBitop(op string, a, b *Term) (*Term, error) {
	w, s := a.width, a.signed
	if a.isConst() && b.isConst() {
		x, y := new(big.Int).Set(a.k), new(big.Int).Set(b.k)
		m := pow2(w)
		if x.Sign() < 0 {
			x.Add(x, m)
		}
		if y.Sign() < 0 && op != "<<" && op != ">>" {
			y.Add(y, m)
		}
		var r *big.Int
		switch op {
		case "&":
			r = new(big.Int).And(x, y)
		case "|":
			r = new(big.Int).Or(x, y)
		case "^":
			r = new(big.Int).Xor(x, y)
		case "&^":
			r = new(big.Int).AndNot(x, y)
		case "<<":
			if y.Cmp(big.NewInt(int64(w))) >= 0 {
				r = big.NewInt(0)
			} else {
				r = new(big.Int).Lsh(x, uint(y.Int64()))
			}
		case ">>":
			sh := uint(w)
			if y.Cmp(big.NewInt(int64(w))) < 0 {
				sh = uint(y.Int64())
			}
			r = new(big.Int).Rsh(a.k, sh) // arithmetic on the signed value
		}
		return wrap(mkZConst(r), w, s), nil
	}
	if a.isConst() && !b.isConst() && (op == "&" || op == "|" || op == "^") {
		a, b = b, a // commutative: keep the constant on the right
	}
	if b.isConst() && bounded(a) && a.lo.Sign() >= 0 && b.k.Sign() >= 0 {
		and := andConst(a, b.k, w, s)
		switch op {
		case "&":
			return and, nil
		case "|": // x | k = x + k - (x & k)
			return wrap(rawSub(rawAdd(a, mkZConst(b.k)), and), w, s), nil
		case "^": // x ^ k = x + k - 2(x & k)
			return wrap(rawSub(rawAdd(a, mkZConst(b.k)), rawMul(mkZConst(big.NewInt(2)), and)), w, s), nil
		case "&^": // x &^ k = x - (x & k)
			return wrap(rawSub(a, and), w, s), nil
		}
	}
	if b.isConst() {
		switch op {
		case "&":
			// mask 2^k-1
			k := new(big.Int).Add(b.k, big1)
			if b.k.Sign() >= 0 && k.BitLen() > 0 && new(big.Int).And(k, b.k).Sign() == 0 && bounded(a) && a.lo.Sign() >= 0 {
				t := node("mod", SInt, w, s, a, mkZConst(k))
				t.lo, t.hi = big0, b.k
				return t, nil
			}
		case "<<":
			if b.k.IsInt64() && b.k.Int64() < int64(w) {
				return wrap(rawMul(a, mkZConst(pow2(int(b.k.Int64())))), w, s), nil
			}
			return mkConst(big.NewInt(0), w, s), nil
		case ">>":
			if bounded(a) && a.lo.Sign() >= 0 {
				if b.k.IsInt64() && b.k.Int64() < int64(w) {
					t := node("div", SInt, w, s, a, mkZConst(pow2(int(b.k.Int64()))))
					t.lo, t.hi = big0, new(big.Int).Rsh(a.hi, uint(b.k.Int64()))
					return t, nil
				}
				return mkConst(big.NewInt(0), w, s), nil
			}
		}
	}
	return nil, fmt.Errorf("unsupported symbolic bit operator %s on %s", op, a.op)
}

func tCmp(op string, a, b *Term) *Term {
	switch op {
	case "==":
		return tEqRaw(a, b)
	case "!=":
		return tNot(tEqRaw(a, b))
	case "<":
		return tLtRaw(a, b)
	case "<=":
		return tLeRaw(a, b)
	case ">":
		return tLtRaw(b, a)
	case ">=":
		return tLeRaw(b, a)
	}
	panic("tCmp " + op)
}

func tNeg(a *Term) *Term { return wrap(rawSub(mkZConst(big0), a), a.width, a.signed) }

// conversion between Go integer types.
func tConvert(a *Term, width int, signed bool) *Term {
	return wrap(a, width, signed)
}

// ---- printing ----

func bigStr(k *big.Int) string {
	if k.Sign() < 0 {
		return "(- " + new(big.Int).Neg(k).String() + ")"
	}
	return k.String()
}

func smtName(n string) string { return "|" + strings.ReplaceAll(strings.ReplaceAll(n, "|", "_"), "\\", "_") + "|" }

// printer emits define-funs for shared sub-terms so output stays linear in DAG size.
type printer struct {
	defined map[int]string // term id -> name usable in later commands
	out     *strings.Builder
	order   []int // definition order (for scoped removal)
	marks   []int
}

func (p *printer) ref(t *Term) string {
	switch t.op {
	case "true":
		return "true"
	case "false":
		return "false"
	case "const":
		return bigStr(t.k)
	case "var":
		return smtName(t.name)
	}
	if n, ok := p.defined[t.id]; ok {
		return n
	}
	var body string
	switch t.op {
	case "id":
		body = p.ref(t.args[0])
		p.defined[t.id] = body
		p.order = append(p.order, t.id)
		return body
	case "neg":
		body = "(- " + p.ref(t.args[0]) + ")"
	case "not":
		body = "(not " + p.ref(t.args[0]) + ")"
	default:
		parts := make([]string, len(t.args))
		for i, a := range t.args {
			parts[i] = p.ref(a)
		}
		body = "(" + t.op + " " + strings.Join(parts, " ") + ")"
	}
	name := fmt.Sprintf("t%d", t.id)
	srt := "Int"
	if t.sort == SBool {
		srt = "Bool"
	}
	fmt.Fprintf(p.out, "(define-fun %s () %s %s)\n", name, srt, body)
	p.defined[t.id] = name
	p.order = append(p.order, t.id)
	return name
}

// evalTerm evaluates a term under a model (used to validate models and to
// produce replay vectors for derived values).
func evalTerm(t *Term, m map[string]*big.Int, memo map[int]*big.Int) *big.Int {
	if v, ok := memo[t.id]; ok {
		return v
	}
	b2i := func(b bool) *big.Int {
		if b {
			return big1
		}
		return big0
	}
	var r *big.Int
	ev := func(i int) *big.Int { return evalTerm(t.args[i], m, memo) }
	switch t.op {
	case "true":
		r = big1
	case "false":
		r = big0
	case "const":
		r = t.k
	case "var":
		v, ok := m[t.name]
		if !ok {
			v = big0
		}
		r = v
	case "id":
		r = ev(0)
	case "neg":
		r = new(big.Int).Neg(ev(0))
	case "not":
		r = b2i(ev(0).Sign() == 0)
	case "and":
		r = b2i(ev(0).Sign() != 0 && ev(1).Sign() != 0)
	case "or":
		r = b2i(ev(0).Sign() != 0 || ev(1).Sign() != 0)
	case "=":
		r = b2i(ev(0).Cmp(ev(1)) == 0)
	case "<":
		r = b2i(ev(0).Cmp(ev(1)) < 0)
	case "<=":
		r = b2i(ev(0).Cmp(ev(1)) <= 0)
	case "+":
		r = new(big.Int).Add(ev(0), ev(1))
	case "-":
		r = new(big.Int).Sub(ev(0), ev(1))
	case "*":
		r = new(big.Int).Mul(ev(0), ev(1))
	case "div":
		d := ev(1)
		if d.Sign() == 0 {
			r = big0
		} else {
			r = new(big.Int).Div(ev(0), d) // euclidean, as SMT-LIB
		}
	case "mod":
		d := ev(1)
		if d.Sign() == 0 {
			r = ev(0)
		} else {
			r = new(big.Int).Mod(ev(0), d)
		}
	case "ite":
		if ev(0).Sign() != 0 {
			r = ev(1)
		} else {
			r = ev(2)
		}
	default:
		panic("evalTerm: " + t.op)
	}
	memo[t.id] = r
	return r
}

// ---- structural hashing (query cache) ----

var hTrue, hFalse = hashBytes([]byte("true")), hashBytes([]byte("false"))

func hashBytes(parts ...[]byte) [16]byte {
	h := sha256.New()
	for _, p := range parts {
		var l [4]byte
		l[0], l[1], l[2], l[3] = byte(len(p)), byte(len(p)>>8), byte(len(p)>>16), byte(len(p)>>24)
		h.Write(l[:])
		h.Write(p)
	}
	var out [16]byte
	copy(out[:], h.Sum(nil))
	return out
}

// hashTerm is a collision-resistant digest of the SMT text the printer would emit for t
// (same op, same constants, same variable names <=> same digest, up to SHA-256 collisions).
func hashTerm(t *Term) [16]byte {
	switch t.op {
	case "true":
		return hTrue
	case "false":
		return hFalse
	}
	if t.hok {
		return t.h
	}
	var r [16]byte
	switch t.op {
	case "const":
		r = hashBytes([]byte("c"), []byte(t.k.String()))
	case "var":
		r = hashBytes([]byte("v"), []byte(t.name))
	case "id":
		r = hashTerm(t.args[0])
	default:
		parts := make([][]byte, 0, len(t.args)+1)
		parts = append(parts, []byte(t.op))
		for _, a := range t.args {
			ah := hashTerm(a)
			parts = append(parts, ah[:])
		}
		r = hashBytes(parts...)
	}
	t.h, t.hok = r, true
	return r
}

// andConst builds x & k for a non-negative x and a non-negative constant k as a linear term: for every
// maximal run of set bits p..q of k the contribution is ((x div 2^p) mod 2^(q-p+1)) * 2^p.
func andConst(x *Term, k *big.Int, w int, s bool) *Term {
	var sum *Term = mkZConst(big0)
	n := k.BitLen()
	for p := 0; p < n; {
		if k.Bit(p) == 0 {
			p++
			continue
		}
		q := p
		for q+1 < n && k.Bit(q+1) == 1 {
			q++
		}
		lowP := pow2(p)
		if x.hi.Cmp(lowP) < 0 {
			break // x has no bits at or above p
		}
		var part *Term = x
		if p > 0 {
			part = node("div", SZ, 0, false, x, mkZConst(lowP))
			part.lo, part.hi = big0, new(big.Int).Rsh(x.hi, uint(p))
		}
		runLen := pow2(q - p + 1)
		if part.hi.Cmp(runLen) >= 0 {
			m := node("mod", SZ, 0, false, part, mkZConst(runLen))
			m.lo, m.hi = big0, new(big.Int).Sub(runLen, big1)
			part = m
		}
		if p > 0 {
			part = rawMul(part, mkZConst(lowP))
		}
		sum = rawAdd(sum, part)
		p = q + 1
	}
	return wrap(sum, w, s)
}
