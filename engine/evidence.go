package main

import (
	"encoding/json"
	"fmt"
	"os"
	"path/filepath"
	"sort"
	"strings"
	"time"

	"golang.org/x/tools/go/ssa"
)

var propertyNotes = map[string]struct {
	Bounds, Outside, Assumptions []string
}{}

func writeEvidence(path, id, tier string, seed int64, eng *Engine, hs []*ssa.Function, results []*HarnessResult,
	total *RunStats, verdicts []*Verdict, violations int, knownLines, spurious, inconclusive []string, wall time.Duration) {

	type fnRec struct {
		Name   string `json:"name"`
		Instrs int    `json:"instrs"`
	}
	var fns []fnRec
	eng.mu.Lock()
	for n, c := range eng.funcsSeen {
		if strings.Contains(n, "/verifrt.") && !strings.Contains(n, "Model") {
			continue
		}
		fns = append(fns, fnRec{n, c})
	}
	eng.mu.Unlock()
	sort.Slice(fns, func(i, j int) bool { return fns[i].Name < fns[j].Name })
	repoFns := 0
	for _, f := range fns {
		if strings.Contains(f.Name, modulePath) && !strings.Contains(f.Name, ".VH_") {
			repoFns++
		}
	}
	var samples []interface{}
	for _, s := range total.Samples {
		samples = append(samples, s)
	}
	for _, v := range verdicts {
		if len(samples) >= 12 {
			break
		}
		nd := map[string]string{}
		for _, n := range v.Nondet {
			nd[n.Name] = n.Val
		}
		samples = append(samples, map[string]interface{}{"assertion": v.Assertion, "kind": v.Kind, "verdict": "sat (counterexample)", "inputs": nd, "pos": v.Pos, "msg": v.Msg})
	}
	perHarness := []map[string]interface{}{}
	for _, r := range results {
		reaches := []string{}
		for k := range r.Stats.Reaches {
			reaches = append(reaches, k)
		}
		sort.Strings(reaches)
		asserts := []string{}
		for k := range r.Stats.AssertsSeen {
			asserts = append(asserts, k)
		}
		sort.Strings(asserts)
		perHarness = append(perHarness, map[string]interface{}{
			"harness": r.Name, "paths": r.Stats.Paths, "final_queries": r.Stats.Final, "unsat": r.Stats.FinalUnsat, "sat": r.Stats.FinalSat,
			"feasibility_queries": r.Stats.Feasibility, "unknown": r.Stats.Unknown, "constant_folded_assertions": r.Stats.Trivial,
			"vacuity_witnesses": reaches, "assertions": asserts, "max_decisions_on_a_path": r.Stats.MaxDecisions,
			"instructions": r.Stats.Instrs, "wall_s": round2(r.Wall.Seconds()), "solver_s": round2(r.Stats.SolverDur.Seconds()), "ended_early": r.Stats.Aborted,
			"schedules": r.Stats.Schedules,
		})
		if len(samples) == 0 {
			samples = append(samples, fmt.Sprintf("%s: %d paths, assertions %v", r.Name, r.Stats.Paths, asserts))
		}
	}
	if len(samples) == 0 {
		samples = append(samples, "no assertion reached")
	}
	notes := propertyNotes[id]
	if buf, err := os.ReadFile(filepath.Join(verifRoot(), "notes.json")); err == nil {
		var all map[string]struct{ Bounds, Outside, Assumptions []string }
		if json.Unmarshal(buf, &all) == nil {
			if n, ok := all[id]; ok {
				notes.Bounds, notes.Outside, notes.Assumptions = n.Bounds, n.Outside, n.Assumptions
			}
		}
	}
	cov := map[string]interface{}{
		"states":                        total.Paths,
		"transitions":                   total.Instrs,
		"traces_validated_against_impl": len(verdicts),
		"samples":                       samples,
		"evaluations":                   total.Final + total.Feasibility,
		"distinct_nontrivial":           total.Final,
		"rule":                          "evaluations = SMT queries discharged (feasibility + final); distinct_nontrivial = final queries, i.e. distinct (path, assertion|panic-condition) pairs that were not constant-folded and were decided by the solver; states = complete symbolic paths; transitions = SSA instructions executed symbolically",
		"exhaustive":                    len(inconclusive) == 0 && !total.SearchOnly,
		"functions_encoded":             fns,
		"repo_functions_encoded":        repoFns,
		"harnesses":                     perHarness,
		"queries":                       map[string]int{"feasibility": total.Feasibility, "final": total.Final, "final_unsat": total.FinalUnsat, "final_sat": total.FinalSat, "unknown": total.Unknown, "answered_from_cache": total.Cached, "constant_folded_assertions": total.Trivial},
		"query_cache":                   "a query whose path condition and goal have the same SHA-256 digest of their SMT text as an earlier query of the same harness is answered from that earlier solver verdict (re-execution repeats prefixes); only solver-decided queries are counted in evaluations",
		"solver":                        "z3 5.1.0 (z3-new -in), logic ALL, integer encoding with explicit mod-2^k wrap",
		"solver_time_s":                 round2(total.SolverDur.Seconds()),
		"load_ssa_s":                    round2(eng.loadSeconds),
		"bounds":                        notes.Bounds,
		"outside_bounds":                notes.Outside,
		"known_findings_seen":           knownLines,
		"spurious":                      spurious,
		"inconclusive":                  inconclusive,
		"explanation":                   "bounded symbolic execution of the repository's go/ssa form; each assertion and implicit panic condition is an SMT query; sat models are replayed natively against the real build before being reported",
	}
	ev := map[string]interface{}{
		"property_id": id,
		"tier":        tier,
		"seed":        seed,
		"level":       "model_checking",
		"coverage":    cov,
		"assumptions": notes.Assumptions,
		"wall_s":      round2(wall.Seconds()),
		"violations":  violations,
	}
	if ev["assumptions"] == nil || len(notes.Assumptions) == 0 {
		ev["assumptions"] = []string{"environment stubs as listed in DESIGN.md §2.6"}
	}
	buf, _ := json.MarshalIndent(ev, "", " ")
	os.MkdirAll(filepath.Dir(path), 0o755)
	os.WriteFile(path, buf, 0o644)
}

func round2(f float64) float64 { return float64(int(f*100+0.5)) / 100 }
