package main

// SSA interpreter with explicit frame stacks (one per simulated goroutine).

import (
	"fmt"
	"go/constant"
	"go/token"
	"go/types"
	"math/big"
	"strings"

	"golang.org/x/tools/go/ssa"
)

type fnInfo struct {
	slots map[ssa.Value]int
	n     int
}

type deferred struct {
	fn   Value // *Closure, *ssa.Function, *ssa.Builtin
	args []Value
	call *ssa.CallCommon
}

type Frame struct {
	fn        *ssa.Function
	info      *fnInfo
	env       []Value
	block     *ssa.BasicBlock
	prev      *ssa.BasicBlock
	pc        int
	defers    []*deferred
	retSlot   int // slot in caller to receive result; -1 discard
	panicking bool
	isDefer   bool // frame of a deferred call
	result    Value
	onReturn  func(res Value) // optional continuation (engine-level)
}

type GState int

const (
	GRunnable GState = iota
	GBlocked
	GDone
)

type G struct {
	id       int
	stack    []*Frame
	state    GState
	waitDesc string
	waitObj  interface{} // what it is blocked on (for reports)
	panicVal *Value      // active panic
	panicMsg string
	isMain   bool
	created  string
	held     map[interface{}]int // locks held (for leak reports)
	retry    bool                // re-execute current instruction when woken
	wake     *wakeInfo           // set by partner for channel ops
	vc       []int               // vector clock (HB tracker)
	panicOrigin string           // innermost repository frame at the time the panic started
}

type engineError struct{ msg string }

func engineFail(format string, a ...interface{}) {
	panic(engineError{fmt.Sprintf(format, a...)})
}

type abortRun struct{ reason string }

func (r *Run) info(fn *ssa.Function) *fnInfo {
	r.eng.mu.Lock()
	defer r.eng.mu.Unlock()
	if fi, ok := r.eng.fnInfos[fn]; ok {
		return fi
	}
	if fn.Blocks == nil && fn.Pkg != nil {
		fn.Pkg.Build()
	}
	fi := &fnInfo{slots: map[ssa.Value]int{}}
	add := func(v ssa.Value) { fi.slots[v] = fi.n; fi.n++ }
	for _, p := range fn.Params {
		add(p)
	}
	for _, p := range fn.FreeVars {
		add(p)
	}
	for _, b := range fn.Blocks {
		for _, in := range b.Instrs {
			if v, ok := in.(ssa.Value); ok {
				add(v)
			}
		}
	}
	r.eng.fnInfos[fn] = fi
	return fi
}

func (r *Run) constValue(c *ssa.Const) Value {
	if c.Value == nil {
		return zero(c.Type())
	}
	t := c.Type().Underlying()
	if tp, ok := t.(*types.TypeParam); ok {
		_ = tp
		engineFail("const of type parameter")
	}
	b, ok := t.(*types.Basic)
	if !ok {
		engineFail("const of non-basic type %v", c.Type())
	}
	switch {
	case b.Info()&types.IsBoolean != 0:
		return constant.BoolVal(c.Value)
	case b.Info()&types.IsInteger != 0:
		w, s, _ := intInfo(b)
		v := constant.ToInt(c.Value)
		k, _ := new(big.Int).SetString(v.ExactString(), 10)
		return fromBig(k, w, s)
	case b.Info()&types.IsFloat != 0:
		f, _ := constant.Float64Val(c.Value)
		return f
	case b.Info()&types.IsString != 0:
		return constant.StringVal(c.Value)
	case b.Info()&types.IsComplex != 0:
		re, _ := constant.Float64Val(constant.Real(c.Value))
		im, _ := constant.Float64Val(constant.Imag(c.Value))
		return complex(re, im)
	}
	engineFail("const kind %v", b)
	return nil
}

func (r *Run) get(fr *Frame, v ssa.Value) Value {
	switch x := v.(type) {
	case *ssa.Const:
		return r.constValue(x)
	case *ssa.Global:
		return r.global(x)
	case *ssa.Function:
		return &Closure{fn: x}
	case *ssa.Builtin:
		return x
	case nil:
		return nil
	}
	i, ok := fr.info.slots[v]
	if !ok {
		engineFail("no slot for %s in %s", v.Name(), fr.fn)
	}
	return fr.env[i]
}

func (r *Run) set(fr *Frame, v ssa.Value, x Value) {
	fr.env[fr.info.slots[v]] = x
}

// ---- goroutines & frames ----

func (r *Run) newG(created string) *G {
	g := &G{id: len(r.gs), created: created, held: map[interface{}]int{}}
	r.gs = append(r.gs, g)
	if r.hb != nil {
		r.hb.spawn(r.cur, g)
	}
	return g
}

func (r *Run) pushFrame(g *G, fn *ssa.Function, args []Value, env []Value, retSlot int) *Frame {
	if fn.Blocks == nil {
		if fn.Pkg != nil {
			fn.Pkg.Build()
		}
		if fn.Blocks == nil {
			engineFail("function without body: %s", fn)
		}
	}
	fi := r.info(fn)
	fr := &Frame{fn: fn, info: fi, env: make([]Value, fi.n), block: fn.Blocks[0], retSlot: retSlot}
	if len(args) != len(fn.Params) {
		engineFail("arity mismatch calling %s: %d vs %d", fn, len(args), len(fn.Params))
	}
	for i, p := range fn.Params {
		fr.env[fi.slots[p]] = args[i]
	}
	for i, p := range fn.FreeVars {
		fr.env[fi.slots[p]] = env[i]
	}
	g.stack = append(g.stack, fr)
	if len(g.stack) > 2000 {
		engineFail("stack overflow in %s", fn)
	}
	r.noteFunction(fn)
	return fr
}

func (g *G) top() *Frame { return g.stack[len(g.stack)-1] }

// goPanic starts a Go-level panic in goroutine g.
func (r *Run) goPanic(g *G, v Value, msg string) {
	pv := v
	g.panicVal = &pv
	g.panicMsg = msg
	if g.panicOrigin == "" {
		g.panicOrigin = r.repoSite(g)
	}
	if len(g.stack) > 0 {
		g.top().panicking = true
	}
}

func (r *Run) runtimePanic(g *G, msg string) {
	r.goPanic(g, Iface{t: r.eng.runtimeErrorType, v: "runtime error: " + msg}, "runtime error: "+msg)
}

// returnFrom pops the top frame delivering res to the caller.
func (r *Run) returnFrom(g *G, res Value) {
	fr := g.top()
	g.stack = g.stack[:len(g.stack)-1]
	if fr.onReturn != nil {
		fr.onReturn(res)
	}
	if len(g.stack) == 0 {
		g.state = GDone
		r.onGoroutineExit(g)
		return
	}
	caller := g.top()
	if fr.retSlot >= 0 {
		caller.env[fr.retSlot] = res
	}
}

// step executes one instruction (or one unwinding action) of g.
// It returns true if g performed/attempted a synchronisation operation (a yield point).
func (r *Run) step(g *G) (yield bool) {
	fr := g.top()
	if fr.panicking {
		if len(fr.defers) > 0 {
			d := fr.defers[len(fr.defers)-1]
			fr.defers = fr.defers[:len(fr.defers)-1]
			r.invoke(g, fr, d.fn, d.args, -1, true)
			return false
		}
		if g.panicVal == nil { // recovered
			fr.panicking = false
			if fr.fn.Recover != nil {
				fr.prev, fr.block, fr.pc = fr.block, fr.fn.Recover, 0
				return false
			}
			r.returnFrom(g, zeroResults(fr.fn))
			return false
		}
		// propagate
		g.stack = g.stack[:len(g.stack)-1]
		if len(g.stack) == 0 {
			g.state = GDone
			r.onGoroutinePanic(g)
			return true
		}
		g.top().panicking = true
		return false
	}
	if fr.pc >= len(fr.block.Instrs) {
		engineFail("fell off block in %s", fr.fn)
	}
	in := fr.block.Instrs[fr.pc]
	r.instrs++
	if r.instrs > r.eng.opts.MaxInstrs {
		engineFail("instruction budget exceeded (%d) in %s", r.eng.opts.MaxInstrs, r.stackOf(g))
	}
	return r.exec(g, fr, in)
}

func zeroResults(fn *ssa.Function) Value {
	res := fn.Signature.Results()
	switch res.Len() {
	case 0:
		return nil
	case 1:
		return zero(res.At(0).Type())
	}
	return zero(res)
}

func (r *Run) jump(fr *Frame, to *ssa.BasicBlock) {
	fr.prev, fr.block, fr.pc = fr.block, to, 0
}

func (r *Run) exec(g *G, fr *Frame, in ssa.Instruction) (yield bool) {
	switch x := in.(type) {
	case *ssa.DebugRef:
		fr.pc++
	case *ssa.Alloc:
		p := new(Value)
		*p = zero(x.Type().Underlying().(*types.Pointer).Elem())
		r.set(fr, x, Ptr(p))
		fr.pc++
	case *ssa.Store:
		if r.localDepth > 0 {
			if _, isG := x.Addr.(*ssa.Global); isG {
				engineFail("summarised callee stores to a global (%s)", fr.fn)
			}
		}
		p := r.get(fr, x.Addr).(Ptr)
		if p == nil {
			r.runtimePanic(g, "invalid memory address or nil pointer dereference")
			return false
		}
		r.access(g, p, true, x)
		storeVal(p, r.get(fr, x.Val))
		fr.pc++
	case *ssa.UnOp:
		return r.execUnOp(g, fr, x)
	case *ssa.BinOp:
		v, ok := r.binop(g, x.Op, x.X.Type(), r.get(fr, x.X), r.get(fr, x.Y), x.Y.Type())
		if !ok {
			return false // panicked
		}
		r.set(fr, x, v)
		fr.pc++
	case *ssa.FieldAddr:
		p := r.get(fr, x.X).(Ptr)
		if p == nil {
			r.runtimePanic(g, "invalid memory address or nil pointer dereference")
			return false
		}
		s, ok := (*p).(Struct)
		if !ok {
			engineFail("FieldAddr on %T in %s (%s)", *p, fr.fn, x)
		}
		if x.Field >= len(s) {
			engineFail("FieldAddr field %d of a %d-field value in %s (%s : %s)", x.Field, len(s), fr.fn, x, x.X.Type())
		}
		r.set(fr, x, Ptr(&s[x.Field]))
		fr.pc++
	case *ssa.Field:
		s := r.get(fr, x.X).(Struct)
		r.set(fr, x, s[x.Field])
		fr.pc++
	case *ssa.IndexAddr:
		return r.execIndexAddr(g, fr, x)
	case *ssa.Index:
		return r.execIndex(g, fr, x)
	case *ssa.Lookup:
		return r.execLookup(g, fr, x)
	case *ssa.MapUpdate:
		if r.localDepth > 0 {
			engineFail("summarised callee updates a map (%s)", fr.fn)
		}
		m := r.get(fr, x.Map).(*MapObj)
		if m == nil {
			r.runtimePanic(g, "assignment to entry in nil map")
			return false
		}
		r.access(g, m, true, x)
		r.mapSet(m, r.get(fr, x.Key), r.get(fr, x.Value))
		fr.pc++
	case *ssa.Slice:
		return r.execSlice(g, fr, x)
	case *ssa.Phi:
		// all phis of a block read their inputs before any is written
		idx := -1
		for i, p := range fr.block.Preds {
			if p == fr.prev {
				idx = i
				break
			}
		}
		if idx < 0 {
			engineFail("phi: no predecessor")
		}
		n := 0
		for fr.pc+n < len(fr.block.Instrs) {
			if _, ok := fr.block.Instrs[fr.pc+n].(*ssa.Phi); !ok {
				break
			}
			n++
		}
		vals := make([]Value, n)
		for i := 0; i < n; i++ {
			vals[i] = r.get(fr, fr.block.Instrs[fr.pc+i].(*ssa.Phi).Edges[idx])
		}
		for i := 0; i < n; i++ {
			r.set(fr, fr.block.Instrs[fr.pc+i].(*ssa.Phi), vals[i])
		}
		fr.pc += n
	case *ssa.If:
		c := r.get(fr, x.Cond)
		var take bool
		switch cv := c.(type) {
		case bool:
			take = cv
		case *Term:
			take = r.branch(cv, r.pos(fr, x))
		default:
			engineFail("if on %T", c)
		}
		if take {
			r.jump(fr, fr.block.Succs[0])
		} else {
			r.jump(fr, fr.block.Succs[1])
		}
	case *ssa.Jump:
		r.jump(fr, fr.block.Succs[0])
	case *ssa.Return:
		var res Value
		switch len(x.Results) {
		case 0:
		case 1:
			res = r.get(fr, x.Results[0])
		default:
			t := make(Tuple, len(x.Results))
			for i, rv := range x.Results {
				t[i] = r.get(fr, rv)
			}
			res = t
		}
		r.returnFrom(g, res)
	case *ssa.RunDefers:
		if len(fr.defers) > 0 {
			d := fr.defers[len(fr.defers)-1]
			fr.defers = fr.defers[:len(fr.defers)-1]
			r.invoke(g, fr, d.fn, d.args, -1, true)
			return false
		}
		fr.pc++
	case *ssa.Panic:
		v := r.get(fr, x.X)
		fr.pc++
		r.goPanic(g, v, "panic: "+r.describePanic(v))
	case *ssa.Call:
		return r.execCall(g, fr, x)
	case *ssa.Go:
		if r.localDepth > 0 {
			engineFail("summarised callee starts a goroutine (%s)", fr.fn)
		}
		fnv, args := r.prepareCall(g, fr, &x.Call)
		if fr.panicking {
			return false
		}
		ng := r.newG(r.pos(fr, x))
		fr.pc++
		r.invokeOn(ng, nil, fnv, args, -1, false)
		return true
	case *ssa.Defer:
		fnv, args := r.prepareCall(g, fr, &x.Call)
		if fr.panicking {
			return false
		}
		fr.defers = append(fr.defers, &deferred{fn: fnv, args: args, call: &x.Call})
		fr.pc++
	case *ssa.MakeInterface:
		r.set(fr, x, Iface{t: x.X.Type(), v: r.get(fr, x.X)})
		fr.pc++
	case *ssa.MakeClosure:
		fn := x.Fn.(*ssa.Function)
		env := make([]Value, len(x.Bindings))
		for i, b := range x.Bindings {
			env[i] = r.get(fr, b)
		}
		r.set(fr, x, &Closure{fn: fn, env: env})
		fr.pc++
	case *ssa.MakeMap:
		mt := x.Type().Underlying().(*types.Map)
		r.set(fr, x, newMap(mt.Key(), mt.Elem()))
		fr.pc++
	case *ssa.MakeChan:
		sz, ok := r.get(fr, x.Size).(int64)
		if !ok {
			engineFail("symbolic channel size")
		}
		r.set(fr, x, r.newChan(int(sz), x.Type().Underlying().(*types.Chan).Elem()))
		fr.pc++
	case *ssa.MakeSlice:
		return r.execMakeSlice(g, fr, x)
	case *ssa.ChangeType:
		r.set(fr, x, r.get(fr, x.X))
		fr.pc++
	case *ssa.ChangeInterface:
		r.set(fr, x, r.get(fr, x.X))
		fr.pc++
	case *ssa.Convert:
		v, ok := r.convert(g, r.get(fr, x.X), x.X.Type(), x.Type())
		if !ok {
			return false
		}
		r.set(fr, x, v)
		fr.pc++
	case *ssa.MultiConvert:
		v, ok := r.convert(g, r.get(fr, x.X), x.X.Type(), x.Type())
		if !ok {
			return false
		}
		r.set(fr, x, v)
		fr.pc++
	case *ssa.SliceToArrayPointer:
		s := r.get(fr, x.X).(Slice)
		n := x.Type().Underlying().(*types.Pointer).Elem().Underlying().(*types.Array).Len()
		okc := r.cmpLen(s.ln, ">=", n)
		if !r.check(g, okc, fmt.Sprintf("cannot convert slice with length %s to array or pointer to array with length %d", describe(s.ln), n), r.pos(fr, x)) {
			return false
		}
		if s.a == nil && n == 0 {
			r.set(fr, x, Ptr(nil))
		} else {
			p := new(Value)
			*p = Array(s.a[:n:n])
			r.set(fr, x, Ptr(p))
		}
		fr.pc++
	case *ssa.TypeAssert:
		return r.execTypeAssert(g, fr, x)
	case *ssa.Extract:
		r.set(fr, x, r.get(fr, x.Tuple).(Tuple)[x.Index])
		fr.pc++
	case *ssa.Range:
		r.set(fr, x, r.newIter(g, r.get(fr, x.X), x))
		fr.pc++
	case *ssa.Next:
		it := r.get(fr, x.Iter).(*rangeIter)
		r.set(fr, x, r.iterNext(it))
		fr.pc++
	case *ssa.Send:
		return r.execSend(g, fr, x)
	case *ssa.Select:
		return r.execSelect(g, fr, x)
	default:
		engineFail("unsupported instruction %T: %s in %s", in, in, fr.fn)
	}
	return false
}

func (r *Run) pos(fr *Frame, in ssa.Instruction) string {
	p := in.Pos()
	if !p.IsValid() {
		// walk back to find some position in the block
		for i := fr.pc; i >= 0 && i < len(fr.block.Instrs); i-- {
			if q := fr.block.Instrs[i].Pos(); q.IsValid() {
				p = q
				break
			}
		}
	}
	if !p.IsValid() {
		return fr.fn.String()
	}
	ps := r.eng.prog.Fset.Position(p)
	f := ps.Filename
	if i := strings.LastIndex(f, "/src/"); i >= 0 && strings.HasPrefix(f, "/repo/") {
		f = f[i+5:]
	} else if i := strings.LastIndex(f, "/"); i >= 0 {
		f = f[i+1:]
	}
	return fmt.Sprintf("%s:%d", f, ps.Line)
}

func (r *Run) describePanic(v Value) string {
	if i, ok := v.(Iface); ok {
		if s, ok := i.v.(string); ok {
			return s
		}
		if i.t != nil {
			return fmt.Sprintf("(%s) %s", i.t, describe(i.v))
		}
	}
	return describe(v)
}

// check is an implicit-panic condition: cond (bool or *Term) must hold, else Go panics.
// Returns true if execution continues normally.
func (r *Run) check(g *G, cond Value, msg, pos string) bool {
	switch c := cond.(type) {
	case bool:
		if c {
			return true
		}
	case *Term:
		if r.branchKind("panic?", c, pos) {
			return true
		}
	}
	r.runtimePanic(g, msg)
	return false
}

// cmpLen compares a length value (int64 or *Term) with a constant.
func (r *Run) cmpLen(l Value, op string, n int64) Value {
	switch x := l.(type) {
	case int64:
		switch op {
		case ">=":
			return x >= n
		case ">":
			return x > n
		case "<=":
			return x <= n
		case "<":
			return x < n
		case "==":
			return x == n
		}
	case *Term:
		k := mkConst(big.NewInt(n), 64, true)
		return termToValue(tCmp(op, x, k))
	}
	panic("cmpLen")
}

func cmpVals(a Value, op string, b Value) Value {
	x, xc := a.(int64)
	y, yc := b.(int64)
	if xc && yc {
		switch op {
		case ">=":
			return x >= y
		case ">":
			return x > y
		case "<=":
			return x <= y
		case "<":
			return x < y
		case "==":
			return x == y
		}
	}
	return termToValue(tCmp(op, lenTerm(a), lenTerm(b)))
}

func (r *Run) execUnOp(g *G, fr *Frame, x *ssa.UnOp) bool {
	v := r.get(fr, x.X)
	switch x.Op {
	case token.MUL:
		p := v.(Ptr)
		if p == nil {
			r.runtimePanic(g, "invalid memory address or nil pointer dereference")
			return false
		}
		r.access(g, p, false, x)
		r.set(fr, x, loadVal(p))
		fr.pc++
	case token.NOT:
		r.set(fr, x, notValue(v))
		fr.pc++
	case token.SUB:
		switch a := v.(type) {
		case int64:
			w, s, _ := intInfo(x.Type())
			r.set(fr, x, normInt(-a, w, s))
		case float64:
			r.set(fr, x, -a)
		case *Term:
			r.set(fr, x, termToValue(tNeg(a)))
		default:
			engineFail("neg %T", v)
		}
		fr.pc++
	case token.XOR:
		switch a := v.(type) {
		case int64:
			w, s, _ := intInfo(x.Type())
			r.set(fr, x, normInt(^a, w, s))
		case *Term:
			// ^x = -x-1 (two's complement)
			t := wrap(rawSub(rawSub(mkZConst(big0), a), mkZConst(big1)), a.width, a.signed)
			r.set(fr, x, termToValue(t))
		default:
			engineFail("xor %T", v)
		}
		fr.pc++
	case token.ARROW:
		return r.execRecv(g, fr, x)
	default:
		engineFail("unop %s", x.Op)
	}
	return false
}

// ---- binary operators ----

func (r *Run) binop(g *G, op token.Token, t types.Type, a, b Value, tb types.Type) (Value, bool) {
	switch op {
	case token.EQL:
		return eqValues(a, b), true
	case token.NEQ:
		return notValue(eqValues(a, b)), true
	}
	switch x := a.(type) {
	case int64:
		switch y := b.(type) {
		case int64:
			return r.intBinop(g, op, t, x, y, tb)
		case *Term:
			return r.symBinop(g, op, t, asTerm(x, t), y, tb)
		}
	case *Term:
		switch y := b.(type) {
		case *Term:
			return r.symBinop(g, op, t, x, y, tb)
		case int64:
			return r.symBinop(g, op, t, x, asTerm(y, tb), tb)
		case bool:
			return r.symBinop(g, op, t, x, mkBool(y), tb)
		}
	case bool:
		if y, ok := b.(*Term); ok {
			return r.symBinop(g, op, t, mkBool(x), y, tb)
		}
	case float64:
		y := b.(float64)
		switch op {
		case token.ADD:
			return x + y, true
		case token.SUB:
			return x - y, true
		case token.MUL:
			return x * y, true
		case token.QUO:
			return x / y, true
		case token.LSS:
			return x < y, true
		case token.LEQ:
			return x <= y, true
		case token.GTR:
			return x > y, true
		case token.GEQ:
			return x >= y, true
		}
	case string:
		switch y := b.(type) {
		case string:
			switch op {
			case token.ADD:
				return x + y, true
			case token.LSS:
				return x < y, true
			case token.LEQ:
				return x <= y, true
			case token.GTR:
				return x > y, true
			case token.GEQ:
				return x >= y, true
			}
		case *SymStr:
			if op == token.ADD {
				return concatStr(strToSym(x), y), true
			}
		}
	case *SymStr:
		if op == token.ADD {
			if _, ok := x.n.(int64); !ok {
				// case-split the (small) symbolic length of the left operand
				n, _ := r.concreteIndex(g, x.n, r.curPosPrev(g))
				x = &SymStr{b: x.b[:n], n: n}
			}
			switch y := b.(type) {
			case string:
				return concatStr(x, strToSym(y)), true
			case *SymStr:
				return concatStr(x, y), true
			}
		}
	}
	engineFail("binop %s on %T, %T", op, a, b)
	return nil, false
}

func concatStr(x, y *SymStr) Value {
	xn, ok := x.n.(int64)
	if !ok {
		engineFail("concatenation after a symbolic-length string")
	}
	b := append(append([]Value{}, x.b[:xn]...), y.b...)
	var n Value
	if yn, ok := y.n.(int64); ok {
		n = xn + yn
	} else {
		n = termToValue(wrap(rawAdd(lenTerm(xn), y.n.(*Term)), 64, true))
	}
	return normStr(&SymStr{b: b, n: n})
}

func (r *Run) intBinop(g *G, op token.Token, t types.Type, x, y int64, tb types.Type) (Value, bool) {
	w, s, ok := intInfo(t)
	if !ok {
		engineFail("intBinop on %v", t)
	}
	switch op {
	case token.ADD:
		return normInt(x+y, w, s), true
	case token.SUB:
		return normInt(x-y, w, s), true
	case token.MUL:
		return normInt(x*y, w, s), true
	case token.QUO, token.REM:
		if y == 0 {
			r.runtimePanic(g, "integer divide by zero")
			return nil, false
		}
		if s {
			if op == token.QUO {
				if y == -1 {
					return normInt(-x, w, s), true
				}
				return normInt(x/y, w, s), true
			}
			if y == -1 {
				return int64(0), true
			}
			return normInt(x%y, w, s), true
		}
		if op == token.QUO {
			return normInt(int64(uint64(x)/uint64(y)), w, s), true
		}
		return normInt(int64(uint64(x)%uint64(y)), w, s), true
	case token.AND:
		return normInt(x&y, w, s), true
	case token.OR:
		return normInt(x|y, w, s), true
	case token.XOR:
		return normInt(x^y, w, s), true
	case token.AND_NOT:
		return normInt(x&^y, w, s), true
	case token.SHL, token.SHR:
		_, sy, _ := intInfo(tb)
		if sy && y < 0 {
			r.runtimePanic(g, "negative shift amount")
			return nil, false
		}
		sh := uint64(y)
		if op == token.SHL {
			if sh >= 64 {
				return int64(0), true
			}
			return normInt(x<<sh, w, s), true
		}
		if s {
			if sh >= 64 {
				sh = 63
			}
			return normInt(x>>sh, w, s), true
		}
		if sh >= 64 {
			return int64(0), true
		}
		return normInt(int64(uint64(x)>>sh), w, s), true
	case token.LSS, token.LEQ, token.GTR, token.GEQ:
		var c int
		if s {
			switch {
			case x < y:
				c = -1
			case x > y:
				c = 1
			}
		} else {
			switch {
			case uint64(x) < uint64(y):
				c = -1
			case uint64(x) > uint64(y):
				c = 1
			}
		}
		switch op {
		case token.LSS:
			return c < 0, true
		case token.LEQ:
			return c <= 0, true
		case token.GTR:
			return c > 0, true
		default:
			return c >= 0, true
		}
	}
	engineFail("intBinop %s", op)
	return nil, false
}

func (r *Run) symBinop(g *G, op token.Token, t types.Type, a, b *Term, tb types.Type) (Value, bool) {
	if a.sort == SBool || b.sort == SBool {
		engineFail("boolean binop %s", op)
	}
	var res *Term
	var err error
	switch op {
	case token.ADD:
		res, err = tArith("+", a, b)
	case token.SUB:
		res, err = tArith("-", a, b)
	case token.MUL:
		res, err = tArith("*", a, b)
	case token.QUO, token.REM:
		// division by zero is a panic condition
		nz := tNot(tEqRaw(b, mkConst(big0, b.width, b.signed)))
		if !r.check(g, termToValue(nz), "integer divide by zero", r.curPos(g)) {
			return nil, false
		}
		if op == token.QUO {
			res, err = tArith("/", a, b)
		} else {
			res, err = tArith("%", a, b)
		}
	case token.AND:
		res, err = tBitop("&", a, b)
		if err != nil {
			res, err = tBitop("&", b, a)
		}
		if err != nil && !a.isConst() && !b.isConst() && bounded(a) && bounded(b) && a.lo.Sign() >= 0 && b.lo.Sign() >= 0 {
			// symbolic & symbolic (non-negative): over-approximated by a fresh value z with
			// 0 <= z <= min(a, b) (sound for verification: every real result is included)
			r.auxCounter++
			z := mkVar(fmt.Sprintf("and~%d", r.auxCounter), a.width, a.signed)
			z.lo, z.hi = big0, minBig(a.hi, b.hi)
			r.declareVar(z)
			r.assertTerm(tAnd(tLeRaw(z, a), tLeRaw(z, b)))
			res, err = z, nil
		}
	case token.OR:
		res, err = tBitop("|", a, b)
	case token.XOR:
		res, err = tBitop("^", a, b)
	case token.AND_NOT:
		res, err = tBitop("&^", a, b)
	case token.SHL:
		res, err = tBitop("<<", a, b)
	case token.SHR:
		res, err = tBitop(">>", a, b)
	case token.LSS:
		res = tCmp("<", a, b)
	case token.LEQ:
		res = tCmp("<=", a, b)
	case token.GTR:
		res = tCmp(">", a, b)
	case token.GEQ:
		res = tCmp(">=", a, b)
	default:
		engineFail("symBinop %s", op)
	}
	if err != nil {
		engineFail("%v at %s", err, r.curPos(g))
	}
	return termToValue(res), true
}

func (r *Run) curPos(g *G) string {
	if g == nil || len(g.stack) == 0 {
		return "?"
	}
	fr := g.top()
	if fr.pc < len(fr.block.Instrs) {
		return r.pos(fr, fr.block.Instrs[fr.pc])
	}
	return fr.fn.String()
}

// ---- conversions ----

func (r *Run) convert(g *G, v Value, from, to types.Type) (Value, bool) {
	uf, ut := from.Underlying(), to.Underlying()
	// type-parameter core types are resolved by instantiation
	switch t := ut.(type) {
	case *types.Basic:
		switch {
		case t.Info()&types.IsInteger != 0:
			w, s, _ := intInfo(t)
			switch x := v.(type) {
			case int64:
				if fb, ok := uf.(*types.Basic); ok && fb.Info()&types.IsInteger != 0 {
					return normInt(x, w, s), true
				}
			case float64:
				return normInt(int64(x), w, s), true
			case *Term:
				return termToValue(tConvert(x, w, s)), true
			}
		case t.Info()&types.IsFloat != 0:
			switch x := v.(type) {
			case int64:
				_, fs, _ := intInfo(uf)
				if fs {
					return float64(x), true
				}
				return float64(uint64(x)), true
			case float64:
				if t.Kind() == types.Float32 {
					return float64(float32(x)), true
				}
				return x, true
			}
		case t.Info()&types.IsString != 0:
			switch x := v.(type) {
			case string:
				return x, true
			case *SymStr:
				return x, true
			case int64: // rune -> string
				return string(rune(x)), true
			case Slice:
				el := uf.(*types.Slice).Elem().Underlying().(*types.Basic)
				if el.Kind() == types.Uint8 {
					return r.bytesToString(x), true
				}
				// []rune
				n, ok := x.ln.(int64)
				if !ok {
					engineFail("symbolic []rune length")
				}
				rs := make([]rune, n)
				for i := range rs {
					c, ok := x.a[i].(int64)
					if !ok {
						engineFail("symbolic rune")
					}
					rs[i] = rune(c)
				}
				return string(rs), true
			}
		case t.Kind() == types.UnsafePointer:
			return v, true
		}
	case *types.Slice:
		el, ok := t.Elem().Underlying().(*types.Basic)
		if ok {
			switch x := v.(type) {
			case string:
				if el.Kind() == types.Uint8 {
					a := make([]Value, len(x))
					for i := 0; i < len(x); i++ {
						a[i] = int64(x[i])
					}
					return Slice{a: nonNil(a), ln: int64(len(x)), cp: int64(len(x))}, true
				}
				rs := []rune(x)
				a := make([]Value, len(rs))
				for i, c := range rs {
					a[i] = int64(c)
				}
				return Slice{a: nonNil(a), ln: int64(len(rs)), cp: int64(len(rs))}, true
			case *SymStr:
				if el.Kind() == types.Uint8 {
					a := append([]Value{}, x.b...)
					return Slice{a: nonNil(a), ln: x.n, cp: int64(len(a))}, true
				}
			case Slice:
				return x, true
			}
		}
	case *types.Pointer:
		return v, true
	}
	engineFail("unsupported conversion %v -> %v (%T)", from, to, v)
	return nil, false
}

func nonNil(a []Value) []Value {
	if a == nil {
		return []Value{}
	}
	return a
}

func (r *Run) bytesToString(x Slice) Value {
	n, ok := x.ln.(int64)
	if ok {
		return normStr(&SymStr{b: append([]Value{}, x.a[:n]...), n: n})
	}
	lt := x.ln.(*Term)
	max := int64(len(x.a))
	if bounded(lt) && lt.hi.IsInt64() && lt.hi.Int64() < max {
		max = lt.hi.Int64()
	}
	return &SymStr{b: append([]Value{}, x.a[:max]...), n: lt}
}

// ---- indexing ----

func (r *Run) concreteIndex(g *G, idx Value, pos string) (int64, bool) {
	switch x := idx.(type) {
	case int64:
		return x, true
	case *Term:
		// fork over the feasible concrete values when the range is small
		if bounded(x) && x.lo.IsInt64() && x.hi.IsInt64() && x.hi.Int64()-x.lo.Int64() <= 64 {
			lo, hi := x.lo.Int64(), x.hi.Int64()
			n := int(hi - lo + 1)
			k := r.decide("index", n, func(i int) *Term {
				return tEqRaw(x, mkConst(big.NewInt(lo+int64(i)), x.width, x.signed))
			}, pos)
			return lo + int64(k), true
		}
		engineFail("symbolic index with large range at %s", pos)
	}
	engineFail("index %T", idx)
	return 0, false
}

func (r *Run) execIndexAddr(g *G, fr *Frame, x *ssa.IndexAddr) bool {
	base := r.get(fr, x.X)
	idxv := r.get(fr, x.Index)
	pos := r.pos(fr, x)
	switch b := base.(type) {
	case Ptr: // *array
		if b == nil {
			r.runtimePanic(g, "invalid memory address or nil pointer dereference")
			return false
		}
		arr := (*b).(Array)
		i, _ := r.concreteIndex(g, idxv, pos)
		if i < 0 || i >= int64(len(arr)) {
			r.runtimePanic(g, fmt.Sprintf("index out of range [%d] with length %d", i, len(arr)))
			return false
		}
		r.set(fr, x, Ptr(&arr[i]))
	case Slice:
		if t, ok := idxv.(*Term); ok {
			// bound check symbolically first, then concretise
			in := tAnd(tLeRaw(mkConst(big0, 64, true), t), tLtRaw(t, lenTerm(b.ln)))
			if !r.check(g, termToValue(in), "index out of range", pos) {
				return false
			}
		}
		i, _ := r.concreteIndex(g, idxv, pos)
		if i < 0 {
			r.runtimePanic(g, fmt.Sprintf("index out of range [%d]", i))
			return false
		}
		if !r.check(g, r.cmpLen(b.ln, ">", i), fmt.Sprintf("index out of range [%d] with length %s", i, describe(b.ln)), pos) {
			return false
		}
		if i >= int64(len(b.a)) {
			engineFail("index beyond physical backing at %s", pos)
		}
		r.set(fr, x, Ptr(&b.a[i]))
	default:
		engineFail("IndexAddr on %T", base)
	}
	fr.pc++
	return false
}

func (r *Run) execIndex(g *G, fr *Frame, x *ssa.Index) bool {
	base := r.get(fr, x.X)
	idxv := r.get(fr, x.Index)
	pos := r.pos(fr, x)
	switch b := base.(type) {
	case Array:
		i, _ := r.concreteIndex(g, idxv, pos)
		if i < 0 || i >= int64(len(b)) {
			r.runtimePanic(g, "index out of range")
			return false
		}
		r.set(fr, x, b[i])
	case string:
		i, _ := r.concreteIndex(g, idxv, pos)
		if i < 0 || i >= int64(len(b)) {
			r.runtimePanic(g, fmt.Sprintf("index out of range [%d] with length %d", i, len(b)))
			return false
		}
		r.set(fr, x, int64(b[i]))
	case *SymStr:
		i, _ := r.concreteIndex(g, idxv, pos)
		if i < 0 {
			r.runtimePanic(g, "index out of range")
			return false
		}
		if !r.check(g, r.cmpLen(b.n, ">", i), "index out of range", pos) {
			return false
		}
		r.set(fr, x, b.b[i])
	default:
		engineFail("Index on %T", base)
	}
	fr.pc++
	return false
}

func (r *Run) execSlice(g *G, fr *Frame, x *ssa.Slice) bool {
	base := r.get(fr, x.X)
	pos := r.pos(fr, x)
	var lo Value = int64(0)
	var hi, max Value
	if x.Low != nil {
		lo = r.get(fr, x.Low)
	}
	if x.High != nil {
		hi = r.get(fr, x.High)
	}
	if x.Max != nil {
		max = r.get(fr, x.Max)
	}
	loC, ok := lo.(int64)
	if !ok {
		// fork over small ranges
		loC, _ = r.concreteIndex(g, lo, pos)
	}
	switch b := base.(type) {
	case string, *SymStr:
		var s *SymStr
		if cs, ok := b.(string); ok {
			if hi == nil {
				hi = int64(len(cs))
			}
			if hc, ok := hi.(int64); ok {
				if loC < 0 || loC > hc || hc > int64(len(cs)) {
					r.runtimePanic(g, fmt.Sprintf("slice bounds out of range [%d:%d] with length %d", loC, hc, len(cs)))
					return false
				}
				r.set(fr, x, cs[loC:hc])
				fr.pc++
				return false
			}
			s = strToSym(cs)
		} else {
			s = b.(*SymStr)
		}
		if hi == nil {
			hi = s.n
		}
		okc := andValues(andValues(loC >= 0, cmpVals(lo2v(loC), "<=", hi)), cmpVals(hi, "<=", s.n))
		if !r.check(g, okc, "slice bounds out of range", pos) {
			return false
		}
		if loC > int64(len(s.b)) {
			engineFail("slice low beyond physical string")
		}
		r.set(fr, x, normStr(&SymStr{b: s.b[loC:], n: subLen(hi, loC)}))
	case Slice:
		if hi == nil {
			hi = b.ln
		}
		if max == nil {
			max = b.cp
		}
		okc := andValues(andValues(loC >= 0, cmpVals(lo2v(loC), "<=", hi)), andValues(cmpVals(hi, "<=", max), cmpVals(max, "<=", b.cp)))
		if !r.check(g, okc, fmt.Sprintf("slice bounds out of range [%d:%s] with capacity %s", loC, describe(hi), describe(b.cp)), pos) {
			return false
		}
		if b.a == nil {
			r.set(fr, x, Slice{ln: int64(0), cp: int64(0)})
			break
		}
		if loC > int64(len(b.a)) {
			engineFail("slice low beyond physical backing at %s", pos)
		}
		phys := b.a[loC:]
		if mc, ok := max.(int64); ok && mc-loC < int64(len(phys)) {
			phys = phys[: mc-loC : mc-loC]
		}
		r.set(fr, x, Slice{a: phys, ln: subLen(hi, loC), cp: subLen(max, loC)})
	case Ptr: // *array
		if b == nil {
			r.runtimePanic(g, "invalid memory address or nil pointer dereference")
			return false
		}
		arr := (*b).(Array)
		n := int64(len(arr))
		if hi == nil {
			hi = n
		}
		if max == nil {
			max = n
		}
		okc := andValues(andValues(loC >= 0, cmpVals(lo2v(loC), "<=", hi)), andValues(cmpVals(hi, "<=", max), cmpVals(max, "<=", lo2v(n))))
		if !r.check(g, okc, "slice bounds out of range", pos) {
			return false
		}
		phys := []Value(arr)[loC:]
		if mc, ok := max.(int64); ok {
			phys = phys[: mc-loC : mc-loC]
		}
		r.set(fr, x, Slice{a: nonNil(phys), ln: subLen(hi, loC), cp: subLen(max, loC)})
	default:
		engineFail("Slice on %T", base)
	}
	fr.pc++
	return false
}

func lo2v(i int64) Value { return i }

func subLen(v Value, lo int64) Value {
	switch x := v.(type) {
	case int64:
		return x - lo
	case *Term:
		if lo == 0 {
			return x
		}
		return termToValue(wrap(rawSub(x, mkZConst(big.NewInt(lo))), 64, true))
	}
	panic("subLen")
}

func (r *Run) execMakeSlice(g *G, fr *Frame, x *ssa.MakeSlice) bool {
	ln := r.get(fr, x.Len)
	cp := r.get(fr, x.Cap)
	el := x.Type().Underlying().(*types.Slice).Elem()
	phys := int64(-1)
	switch c := cp.(type) {
	case int64:
		phys = c
	case *Term:
		if bounded(c) && c.hi.IsInt64() && c.hi.Int64() <= r.eng.opts.MaxSymAlloc {
			phys = c.hi.Int64()
		}
	}
	if phys < 0 {
		if t, ok := cp.(*Term); ok && t != nil {
			engineFail("make with unbounded symbolic size at %s", r.pos(fr, x))
		}
		r.runtimePanic(g, "makeslice: len out of range")
		return false
	}
	if lc, ok := ln.(int64); ok && (lc < 0 || lc > phys) {
		r.runtimePanic(g, "makeslice: len out of range")
		return false
	}
	if lt, ok := ln.(*Term); ok {
		if !r.check(g, termToValue(tLeRaw(mkConst(big0, 64, true), lt)), "makeslice: len out of range", r.pos(fr, x)) {
			return false
		}
	}
	if ct, ok := cp.(*Term); ok {
		// cap >= 0 and len <= cap, as the runtime checks
		okc := tAnd(tLeRaw(mkConst(big0, 64, true), ct), tLeRaw(lenTerm(ln), ct))
		if !r.check(g, termToValue(okc), "makeslice: cap out of range", r.pos(fr, x)) {
			return false
		}
	}
	a := make([]Value, phys)
	for i := range a {
		a[i] = zero(el)
	}
	r.set(fr, x, Slice{a: a, ln: ln, cp: cp})
	fr.pc++
	return false
}

// ---- type assertions ----

func (r *Run) implements(dyn types.Type, iface *types.Interface) bool {
	return types.Implements(dyn, iface)
}

func (r *Run) execTypeAssert(g *G, fr *Frame, x *ssa.TypeAssert) bool {
	v := r.get(fr, x.X).(Iface)
	var ok bool
	var res Value
	if it, isI := x.AssertedType.Underlying().(*types.Interface); isI {
		if v.t != nil && r.implements(v.t, it) {
			ok, res = true, v
		} else {
			res = Iface{}
		}
	} else {
		if v.t != nil && types.Identical(v.t, x.AssertedType) {
			ok, res = true, v.v
		} else {
			res = zero(x.AssertedType)
		}
	}
	if x.CommaOk {
		r.set(fr, x, Tuple{res, ok})
	} else {
		if !ok {
			have := "nil"
			if v.t != nil {
				have = v.t.String()
			}
			r.runtimePanic(g, fmt.Sprintf("interface conversion: interface is %s, not %s", have, x.AssertedType))
			return false
		}
		r.set(fr, x, res)
	}
	fr.pc++
	return false
}

// ---- calls ----

// prepareCall evaluates the callee and arguments of a call.
func (r *Run) prepareCall(g *G, fr *Frame, c *ssa.CallCommon) (Value, []Value) {
	var args []Value
	var fnv Value
	if c.IsInvoke() {
		recv := r.get(fr, c.Value).(Iface)
		if recv.t == nil {
			r.runtimePanic(g, "invalid memory address or nil pointer dereference (method call on nil interface)")
			return nil, nil
		}
		fn := r.lookupMethod(recv.t, c.Method)
		if fn == nil {
			engineFail("no method %s on %s", c.Method.Name(), recv.t)
		}
		fnv = &Closure{fn: fn}
		args = append(args, recv.v)
	} else {
		fnv = r.get(fr, c.Value)
	}
	for _, a := range c.Args {
		args = append(args, r.get(fr, a))
	}
	return fnv, args
}

func (r *Run) lookupMethod(t types.Type, m *types.Func) *ssa.Function {
	r.eng.mu.Lock()
	defer r.eng.mu.Unlock()
	ms := r.eng.prog.MethodSets.MethodSet(t)
	sel := ms.Lookup(m.Pkg(), m.Name())
	if sel == nil {
		return nil
	}
	return r.eng.prog.MethodValue(sel)
}

func (r *Run) execCall(g *G, fr *Frame, x *ssa.Call) bool {
	fnv, args := r.prepareCall(g, fr, &x.Call)
	if fr.panicking {
		return false // a panic was raised while evaluating the callee (nil interface receiver)
	}
	slot := fr.info.slots[x]
	// pc is advanced before the callee runs; blocked intrinsics rewind it.
	fr.pc++
	return r.invoke(g, fr, fnv, args, slot, false)
}

// invoke calls fnv on goroutine g. Returns true if the call was a sync point.
func (r *Run) invoke(g *G, fr *Frame, fnv Value, args []Value, retSlot int, isDefer bool) bool {
	return r.invokeOn(g, fr, fnv, args, retSlot, isDefer)
}

func (r *Run) invokeOn(g *G, fr *Frame, fnv Value, args []Value, retSlot int, isDefer bool) bool {
	switch f := fnv.(type) {
	case *ssa.Builtin:
		res, ok := r.builtin(g, fr, f, args)
		if ok && retSlot >= 0 && fr != nil {
			fr.env[retSlot] = res
		}
		return false
	case *Closure:
		if f == nil {
			r.runtimePanic(g, "invalid memory address or nil pointer dereference (call of nil func)")
			return false
		}
		fn := f.fn
		if red, ok := r.eng.redirects[fn.String()]; ok {
			fn = red
		}
		if r.runRedirects != nil {
			if rc, ok := r.runRedirects[fn.String()]; ok {
				f = rc
				fn = rc.fn
			}
		}
		if in, ok := intrinsics[fn.String()]; ok {
			res, act := in(r, g, args)
			switch act {
			case actDone:
				if retSlot >= 0 && fr != nil {
					fr.env[retSlot] = res
				}
				return false
			case actSync:
				if retSlot >= 0 && fr != nil {
					fr.env[retSlot] = res
				}
				return true
			case actBlocked:
				// re-execute the call instruction when woken
				if fr == nil || isDefer {
					// deferred / go'ed blocking intrinsic: wrap in a synthetic retry
					engineFail("blocking intrinsic %s in defer/go position", fn)
				}
				fr.pc--
				return true
			case actPanic, actCalled:
				return false
			}
		}
		if fn.Blocks == nil && fn.Pkg != nil {
			fn.Pkg.Build()
		}
		if fn.Blocks == nil {
			if gen := r.genericIntrinsic(fn); gen != nil {
				res, _ := gen(r, g, args)
				if retSlot >= 0 && fr != nil {
					fr.env[retSlot] = res
				}
				return false
			}
			engineFail("external function without model: %s (called at %s)", fn.String(), r.curPosPrev(g))
		}
		if r.eng.summarise[fn.String()] && !r.noSummaries {
			r.summarisedCall(g, fr, fn, args, f.env, retSlot)
			return false
		}
		nf := r.pushFrame(g, fn, args, f.env, retSlot)
		nf.isDefer = isDefer
		return false
	}
	engineFail("call of %T", fnv)
	return false
}

func (r *Run) curPosPrev(g *G) string {
	if g == nil || len(g.stack) == 0 {
		return "?"
	}
	fr := g.top()
	pc := fr.pc - 1
	if pc >= 0 && pc < len(fr.block.Instrs) {
		return r.pos(fr, fr.block.Instrs[pc])
	}
	return fr.fn.String()
}

// callThen pushes a call to closure f and continues with k(result) when it returns.
func (r *Run) callThen(g *G, f *Closure, args []Value, k func(Value)) {
	nf := r.pushFrame(g, f.fn, args, f.env, -1)
	nf.onReturn = k
}

// repoSite names the innermost frame of the repository under test (not stdlib, dependencies,
// verifrt or harness files) as "function: source line text", stable under line-number shifts.
func (r *Run) repoSite(g *G) string {
	for i := len(g.stack) - 1; i >= 0; i-- {
		fr := g.stack[i]
		if fr.fn == nil || fr.fn.Pkg == nil {
			continue
		}
		pp := fr.fn.Pkg.Pkg.Path()
		if !strings.HasPrefix(pp, modulePath) || strings.HasSuffix(pp, "/verifrt") {
			continue
		}
		pc := fr.pc
		if i < len(g.stack)-1 {
			pc-- // a caller frame has already advanced past its call
		}
		var p token.Pos
		for j := pc; j >= 0 && j < len(fr.block.Instrs); j-- {
			if q := fr.block.Instrs[j].Pos(); q.IsValid() {
				p = q
				break
			}
		}
		if !p.IsValid() {
			continue
		}
		ps := r.eng.prog.Fset.Position(p)
		if strings.Contains(ps.Filename, "zz_vh_") {
			continue
		}
		return fr.fn.Name() + ": " + r.eng.sourceLine(ps.Filename, ps.Line)
	}
	return ""
}
