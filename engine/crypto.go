package main

// Idealised cryptography and file/randomness models (DESIGN §2.6, §2.7).
//
//   sha256.Sum256      concrete input -> the real digest; otherwise an uninterpreted function:
//                      fresh 32 bytes + (input = input') <=> (digest = digest') against every
//                      earlier application in the run (functional + collision-free).
//   ed25519.Verify     precondition len(pub) == 32 (the real function panics otherwise); the result
//                      is a fresh boolean, functionally consistent with earlier applications, and
//                      true for (pub(priv), msg, Sign(priv, msg)). Unforgeability is stated by the
//                      harnesses (which signatures the adversary may hold).
//   ed25519.Sign       fresh 64 bytes, recorded; a signature made for (key, msg) verifies for msg under no
//                      other key (exclusive ownership).   ed25519.GenerateKey: concrete, pairwise distinct key names.
//   AES-GCM (modelGCMSeal/Open, used by verifrt.ModelAEAD): Seal yields fresh bytes of
//                      len(plaintext)+16; Open succeeds iff (key, nonce, ciphertext) is literally a
//                      recorded Seal (ideal AEAD).
//   base58             identity bijection between byte strings and strings.
//   rand / io.ReadFull(rand.Reader, b): fresh symbolic bytes.   os.ReadFile/WriteFile: a per-run file table.

import (
	"crypto/sha256"
	"fmt"
	"go/types"
	"math/big"
)

func bigInt(i int64) *big.Int { return big.NewInt(i) }

type shaApp struct {
	in  *SymStr
	out []Value
}
type sigRec struct {
	priv, msg, sig *SymStr
}
type verRec struct {
	pub, msg, sig *SymStr
	res           *Term
}
type sealRec struct {
	key, nonce, pt, ct *SymStr
}

type cryptoState struct {
	genPubs [][]Value
	rands   [][]Value
	honest []*SymStr // public keys whose private key the adversary does not hold
	sha   []shaApp
	sigs  []sigRec
	vers  []verRec
	seals []sealRec
	files map[string]Value // path -> Slice
	n     int
}

func (r *Run) crypto() *cryptoState {
	if r.cs == nil {
		r.cs = &cryptoState{files: map[string]Value{}}
	}
	return r.cs
}

// symOf views a []byte / string / [N]byte value as a SymStr.
func (r *Run) symOf(v Value) *SymStr {
	switch x := v.(type) {
	case string:
		return strToSym(x)
	case *SymStr:
		return x
	case Slice:
		switch s := r.bytesToString(x).(type) {
		case string:
			return strToSym(s)
		case *SymStr:
			return s
		}
	case Array:
		return &SymStr{b: append([]Value{}, x...), n: int64(len(x))}
	}
	engineFail("symOf %T", v)
	return nil
}

func concreteBytes(s *SymStr) ([]byte, bool) {
	n, ok := s.n.(int64)
	if !ok {
		return nil, false
	}
	out := make([]byte, n)
	for i := int64(0); i < n; i++ {
		c, ok := s.b[i].(int64)
		if !ok {
			return nil, false
		}
		out[i] = byte(c)
	}
	return out, true
}

func (r *Run) freshBytes(name string, n int) []Value {
	cs := r.crypto()
	cs.n++
	out := make([]Value, n)
	for i := range out {
		t := mkVar(fmt.Sprintf("%s~%d[%d]", name, cs.n, i), 8, false)
		r.declareVar(t)
		out[i] = t
	}
	return out
}

func sliceOf(cells []Value) Slice {
	return Slice{a: nonNil(cells), ln: int64(len(cells)), cp: int64(len(cells))}
}

func eqCells(a, b []Value) *Term {
	acc := tTrue
	for i := range a {
		acc = tAnd(acc, tEqRaw(byteTerm(a[i]), byteTerm(b[i])))
	}
	return acc
}

func (r *Run) sha256Model(in Value) Value {
	s := r.symOf(in)
	if b, ok := concreteBytes(s); ok {
		d := sha256.Sum256(b)
		out := make(Array, 32)
		for i := range out {
			out[i] = int64(d[i])
		}
		// keep concrete applications too: a symbolic input may equal this one (and relate it to the
		// symbolic applications made earlier)
		for _, prev := range r.crypto().sha {
			if _, conc := concreteBytes(prev.in); conc {
				continue
			}
			same := boolTerm(eqStr(s, prev.in))
			r.assertTerm(tIff(same, eqCells([]Value(out), prev.out)))
		}
		r.crypto().sha = append(r.crypto().sha, shaApp{in: s, out: []Value(out)})
		return out
	}
	cs := r.crypto()
	out := r.freshBytes("sha256", 32)
	for _, prev := range cs.sha {
		same := boolTerm(eqStr(s, prev.in))
		r.assertTerm(tIff(same, eqCells(out, prev.out)))
	}
	cs.sha = append(cs.sha, shaApp{in: s, out: out})
	return Array(out)
}

func (r *Run) lenIs(s *SymStr, n int64) Value { return r.cmpLen(s.n, "==", n) }

func init() {
	reg := func(name string, f intrinsic) { intrinsics[name] = f }
	reg("crypto/sha256.Sum256", func(r *Run, g *G, a []Value) (Value, action) {
		return r.sha256Model(a[0]), actDone
	})
	reg("crypto/ed25519.Verify", func(r *Run, g *G, a []Value) (Value, action) {
		pub, msg, sig := r.symOf(a[0]), r.symOf(a[1]), r.symOf(a[2])
		if !r.check(g, r.lenIs(pub, 32), "ed25519: bad public key length", r.curPosPrev(g)) {
			return nil, actPanic
		}
		cs := r.crypto()
		cs.n++
		res := mkBoolVar(fmt.Sprintf("ed25519.Verify~%d", cs.n))
		r.declareVar(res)
		// a signature that is not 64 bytes long never verifies
		r.assertTerm(tImplies(tNot(boolTerm(r.lenIs(sig, 64))), tNot(res)))
		for _, p := range cs.vers {
			same := tAnd(boolTerm(eqStr(pub, p.pub)), tAnd(boolTerm(eqStr(msg, p.msg)), boolTerm(eqStr(sig, p.sig))))
			r.assertTerm(tImplies(same, tIff(res, p.res)))
		}
		matches := tFalse
		for _, s := range cs.sigs {
			pubOf := &SymStr{b: s.priv.b[32:64], n: int64(32)}
			same := tAnd(boolTerm(eqStr(pub, pubOf)), tAnd(boolTerm(eqStr(msg, s.msg)), boolTerm(eqStr(sig, s.sig))))
			r.assertTerm(tImplies(same, res))
			matches = tOr(matches, same)
			// exclusive ownership: a signature produced for (key, msg) verifies for that message under no other key
			r.assertTerm(tImplies(tAnd(res, tAnd(boolTerm(eqStr(msg, s.msg)), boolTerm(eqStr(sig, s.sig)))), boolTerm(eqStr(pub, pubOf))))
		}
		// unforgeability: under an honest key only signatures produced by Sign in this run verify
		for _, h := range cs.honest {
			r.assertTerm(tImplies(tAnd(boolTerm(eqStr(pub, h)), res), matches))
		}
		cs.vers = append(cs.vers, verRec{pub, msg, sig, res})
		return termToValue(res), actDone
	})
	reg("crypto/ed25519.Sign", func(r *Run, g *G, a []Value) (Value, action) {
		priv, msg := r.symOf(a[0]), r.symOf(a[1])
		if !r.check(g, r.lenIs(priv, 64), "ed25519: bad private key length", r.curPosPrev(g)) {
			return nil, actPanic
		}
		cs := r.crypto()
		// deterministic: the same key and message give the same signature
		sig := r.freshBytes("ed25519.sig", 64)
		for _, s := range cs.sigs {
			// the same (key, message) gives the same signature; different ones give different signatures
			same := tAnd(boolTerm(eqStr(priv, s.priv)), boolTerm(eqStr(msg, s.msg)))
			r.assertTerm(tIff(same, eqCells(sig, s.sig.b)))
		}
		ss := &SymStr{b: sig, n: int64(64)}
		// earlier Verify applications on exactly this triple were true
		pubOf := &SymStr{b: priv.b[32:64], n: int64(32)}
		for _, p := range cs.vers {
			same := tAnd(boolTerm(eqStr(p.pub, pubOf)), tAnd(boolTerm(eqStr(p.msg, msg)), boolTerm(eqStr(p.sig, ss))))
			r.assertTerm(tImplies(same, p.res))
		}
		cs.sigs = append(cs.sigs, sigRec{priv: priv, msg: msg, sig: ss})
		return sliceOf(sig), actDone
	})
	reg(vrt+"HonestKey", func(r *Run, g *G, a []Value) (Value, action) {
		cs := r.crypto()
		if len(cs.vers) > 0 {
			engineFail("HonestKey must be declared before the first Verify")
		}
		cs.honest = append(cs.honest, r.symOf(a[0]))
		return nil, actDone
	})
	reg("crypto/ed25519.GenerateKey", func(r *Run, g *G, a []Value) (Value, action) {
		// keys are names in the ideal model: concrete, pairwise distinct byte strings (the k-th key pair of
		// a run is seed = k,0xA5.. / public = k,0x5A..); what they sign and verify is decided by the axioms
		cs := r.crypto()
		k := len(cs.genPubs) + 1
		seed, pub := make([]Value, 32), make([]Value, 32)
		for i := range seed {
			seed[i], pub[i] = int64(0xA5), int64(0x5A)
		}
		seed[0], pub[0] = int64(k), int64(k)
		cs.genPubs = append(cs.genPubs, pub)
		priv := append(append([]Value{}, seed...), pub...)
		return Tuple{sliceOf(append([]Value{}, pub...)), sliceOf(priv), Iface{}}, actDone
	})
	// base58: identity bijection
	reg("github.com/mr-tron/base58.Encode", func(r *Run, g *G, a []Value) (Value, action) {
		return r.bytesToString(a[0].(Slice)), actDone
	})
	reg("github.com/mr-tron/base58.Decode", func(r *Run, g *G, a []Value) (Value, action) {
		s := r.symOf(a[0])
		cells := append([]Value{}, s.b...)
		return Tuple{Slice{a: nonNil(cells), ln: s.n, cp: int64(len(cells))}, Iface{}}, actDone
	})
	reg("github.com/mr-tron/base58.FastBase58Encoding", intrinsics["github.com/mr-tron/base58.Encode"])
	reg("github.com/mr-tron/base58.FastBase58Decoding", intrinsics["github.com/mr-tron/base58.Decode"])
	// AES-GCM leaf models (called from verifrt.ModelAEAD)
	reg(vrt+"modelGCMSeal", func(r *Run, g *G, a []Value) (Value, action) {
		key, nonce, pt := r.symOf(a[0]), r.symOf(a[1]), r.symOf(a[2])
		cs := r.crypto()
		max := len(pt.b)
		ct := r.freshBytes("gcm.ct", max+16)
		var ln Value
		if n, ok := pt.n.(int64); ok {
			ln = n + 16
			ct = ct[:n+16]
		} else {
			ln = termToValue(wrap(rawAdd(pt.n.(*Term), mkZConst(bigInt(16))), 64, true))
		}
		cts := &SymStr{b: ct, n: ln}
		cs.seals = append(cs.seals, sealRec{key: key, nonce: nonce, pt: pt, ct: cts})
		return Slice{a: ct, ln: ln, cp: int64(len(ct))}, actDone
	})
	reg(vrt+"modelGCMOpen", func(r *Run, g *G, a []Value) (Value, action) {
		key, nonce, ct := r.symOf(a[0]), r.symOf(a[1]), r.symOf(a[2])
		cs := r.crypto()
		conds := make([]*Term, len(cs.seals))
		for i, s := range cs.seals {
			conds[i] = tAnd(boolTerm(eqStr(key, s.key)), tAnd(boolTerm(eqStr(nonce, s.nonce)), boolTerm(eqStr(ct, s.ct))))
		}
		k := r.decide("gcm-open", len(conds)+1, func(i int) *Term {
			if i < len(conds) {
				c := conds[i]
				for j := 0; j < i; j++ {
					c = tAnd(c, tNot(conds[j]))
				}
				return c
			}
			c := tTrue
			for j := range conds {
				c = tAnd(c, tNot(conds[j]))
			}
			return c
		}, r.curPosPrev(g))
		if k < len(conds) {
			pt := cs.seals[k].pt
			cells := append([]Value{}, pt.b...)
			return Tuple{Slice{a: nonNil(cells), ln: pt.n, cp: int64(len(cells))}, true}, actDone
		}
		return Tuple{Slice{ln: int64(0), cp: int64(0)}, false}, actDone
	})
	reg(vrt+"modelRandFill", func(r *Run, g *G, a []Value) (Value, action) {
		s := a[0].(Slice)
		n, ok := s.ln.(int64)
		if !ok {
			engineFail("random fill of a symbolic-length buffer")
		}
		fresh := r.freshBytes("rand", int(n))
		for i := int64(0); i < n; i++ {
			s.a[i] = fresh[i]
		}
		return nil, actDone
	})
	// file table
	reg(vrt+"SetFile", func(r *Run, g *G, a []Value) (Value, action) {
		r.crypto().files[strArg(a[0])] = a[1]
		return nil, actDone
	})
	reg("os.ReadFile", func(r *Run, g *G, a []Value) (Value, action) {
		if v, ok := r.crypto().files[strArg(a[0])]; ok {
			s := v.(Slice)
			cells := append([]Value{}, s.a...)
			return Tuple{Slice{a: nonNil(cells), ln: s.ln, cp: s.cp}, Iface{}}, actDone
		}
		return Tuple{Slice{ln: int64(0), cp: int64(0)}, r.codecError()}, actDone
	})
	reg("os.WriteFile", func(r *Run, g *G, a []Value) (Value, action) {
		r.crypto().files[strArg(a[0])] = a[1]
		return Iface{}, actDone
	})
	// os.OpenFile / (*os.File).Write / Sync / Close over the same file table: O_TRUNC empties the file at open,
	// O_APPEND writes at the end, otherwise writes start at offset 0 and OVERWRITE in place (what is beyond the
	// written range stays). Like os.WriteFile in this model, opening for writing does not fail (file system faults are outside).
	reg("os.OpenFile", func(r *Run, g *G, a []Value) (Value, action) {
		name, flag := strArg(a[0]), intArg(a[1])
		cs := r.crypto()
		old, exists := cs.files[name]
		if !exists && flag&0x40 == 0 { // O_CREAT
			return Tuple{Ptr(nil), r.codecError()}, actDone
		}
		if !exists || flag&0x200 != 0 { // O_TRUNC
			cs.files[name] = Slice{a: []Value{}, ln: int64(0), cp: int64(0)}
			old = cs.files[name]
		}
		off := int64(0)
		if flag&0x400 != 0 { // O_APPEND
			n, _ := r.concreteIndex(g, old.(Slice).ln, r.curPosPrev(g))
			off = n
		}
		p := new(Value)
		*p = Opaque{kind: "os.File", id: r.nextOpaque()}
		r.attach[Ptr(p)] = Tuple{name, off}
		return Tuple{Ptr(p), Iface{}}, actDone
	})
	reg("(*os.File).Write", func(r *Run, g *G, a []Value) (Value, action) {
		p, _ := a[0].(Ptr)
		st, ok := r.attach[p].(Tuple)
		if p == nil || !ok {
			return Tuple{int64(0), r.codecError()}, actDone
		}
		name, off := st[0].(string), st[1].(int64)
		cs := r.crypto()
		cur := cs.files[name].(Slice)
		curLen, _ := r.concreteIndex(g, cur.ln, r.curPosPrev(g))
		data := a[1].(Slice)
		dataLen, _ := r.concreteIndex(g, data.ln, r.curPosPrev(g))
		cells := append([]Value{}, cur.a[:curLen]...)
		for i := int64(0); i < dataLen; i++ {
			if off+i < int64(len(cells)) {
				cells[off+i] = copyVal(data.a[i])
			} else {
				cells = append(cells, copyVal(data.a[i]))
			}
		}
		cs.files[name] = Slice{a: nonNil(cells), ln: int64(len(cells)), cp: int64(len(cells))}
		r.attach[p] = Tuple{name, off + dataLen}
		return Tuple{dataLen, Iface{}}, actDone
	})
	reg("(*os.File).Sync", func(r *Run, g *G, a []Value) (Value, action) { return Iface{}, actDone })
	reg("(*os.File).Close", func(r *Run, g *G, a []Value) (Value, action) { return Iface{}, actDone })
	// errors.As (its body goes through reflectlite): target points at a variable of a concrete type T; true and
	// *target = err when the dynamic type of err is T. Wrapped errors are not unwrapped (neither the repository
	// nor its dependencies wrap the errors they test this way; a wrong "false" could only show in changed code,
	// and every counterexample is replayed natively anyway).
	reg("errors.As", func(r *Run, g *G, a []Value) (Value, action) {
		ev, ok1 := a[0].(Iface)
		tv, ok2 := a[1].(Iface)
		if !ok1 || !ok2 || tv.t == nil {
			engineFail("errors.As on %T, %T", a[0], a[1])
		}
		pt, ok := tv.t.Underlying().(*types.Pointer)
		if !ok {
			engineFail("errors.As target is not a pointer")
		}
		if _, isIface := pt.Elem().Underlying().(*types.Interface); isIface {
			engineFail("errors.As with an interface target")
		}
		if ev.t != nil && types.Identical(ev.t, pt.Elem()) {
			p := tv.v.(Ptr)
			*p = copyVal(ev.v)
			return true, actDone
		}
		return false, actDone
	})
	// ideal codec exposed to harness-level models (GOB wallet)
	reg(vrt+"IdealEncode", func(r *Run, g *G, a []Value) (Value, action) {
		iv := a[0].(Iface)
		t, v := iv.t, iv.v
		if pt, ok := t.Underlying().(*types.Pointer); ok {
			p := v.(Ptr)
			t, v = pt.Elem(), loadVal(p)
		}
		tok := codecToken{t: t, v: dropUnencoded(v, t)}
		return Slice{a: []Value{tok}, ln: int64(1), cp: int64(1)}, actDone
	})
	reg(vrt+"IdealDecode", intrinsics["github.com/shamaton/msgpack/v2.Unmarshal"])
}

// ---- network / parsing leaves: nondeterministic success or failure, no effects ----

func init() {
	reg := func(name string, f intrinsic) { intrinsics[name] = f }
	reg("google.golang.org/grpc.Dial", func(r *Run, g *G, a []Value) (Value, action) {
		if r.decide("env:grpc.Dial", 2, nil, r.curPosPrev(g)) == 0 {
			p := new(Value)
			*p = Opaque{kind: "grpc.ClientConn", id: r.nextOpaque()}
			return Tuple{Ptr(p), Iface{}}, actDone
		}
		return Tuple{Ptr(nil), r.codecError()}, actDone
	})
	reg("google.golang.org/grpc.DialContext", intrinsics["google.golang.org/grpc.Dial"])
	reg("(*google.golang.org/grpc.ClientConn).Close", func(r *Run, g *G, a []Value) (Value, action) {
		if p, ok := a[0].(Ptr); !ok || p == nil {
			// the real method dereferences its receiver
			r.runtimePanic(g, "invalid memory address or nil pointer dereference")
			return nil, actPanic
		}
		return Iface{}, actDone
	})
	reg("net/url.Parse", func(r *Run, g *G, a []Value) (Value, action) {
		if r.decide("env:url.Parse", 2, nil, r.curPosPrev(g)) == 0 {
			p := new(Value)
			*p = Opaque{kind: "url.URL", id: r.nextOpaque()}
			return Tuple{Ptr(p), Iface{}}, actDone
		}
		return Tuple{Ptr(nil), r.codecError()}, actDone
	})
}

func (r *Run) nextOpaque() int { r.opaqueCount++; return r.opaqueCount }

// ---- encoding/binary little-endian 64-bit: eight byte cells b0..b7 with v = sum b_i * 256^i (linear) ----

func (r *Run) le64Cells(v Value) []Value {
	switch x := v.(type) {
	case int64:
		out := make([]Value, 8)
		u := uint64(x)
		for i := range out {
			out[i] = int64(byte(u >> (8 * uint(i))))
		}
		return out
	case *Term:
		cells := r.freshBytes("le64", 8)
		var sum *Term = mkZConst(big.NewInt(0))
		for i, c := range cells {
			sum = rawAdd(sum, rawMul(c.(*Term), mkZConst(new(big.Int).Lsh(big.NewInt(1), uint(8*i)))))
		}
		val := x
		if x.signed { // defensive: callers convert to uint64 first
			val = wrap(x, 64, false)
		}
		r.assertTerm(tEqRaw(sum, val))
		return cells
	}
	engineFail("le64Cells %T", v)
	return nil
}

func init() {
	reg := func(name string, f intrinsic) { intrinsics[name] = f }
	reg("(encoding/binary.littleEndian).PutUint64", func(r *Run, g *G, a []Value) (Value, action) {
		b := a[1].(Slice)
		if !r.check(g, r.cmpLen(b.ln, ">=", 8), "index out of range [7]", r.curPosPrev(g)) {
			return nil, actPanic
		}
		for i, c := range r.le64Cells(a[2]) {
			b.a[i] = c
		}
		return nil, actDone
	})
	reg("(encoding/binary.littleEndian).AppendUint64", func(r *Run, g *G, a []Value) (Value, action) {
		return r.builtinAppend(g, a[1].(Slice), sliceOf(r.le64Cells(a[2]))), actDone
	})
	reg("(encoding/binary.littleEndian).Uint64", func(r *Run, g *G, a []Value) (Value, action) {
		b := a[1].(Slice)
		if !r.check(g, r.cmpLen(b.ln, ">=", 8), "index out of range [7]", r.curPosPrev(g)) {
			return nil, actPanic
		}
		var sum *Term = mkZConst(big.NewInt(0))
		for i := 0; i < 8; i++ {
			sum = rawAdd(sum, rawMul(byteTerm(b.a[i]), mkZConst(new(big.Int).Lsh(big.NewInt(1), uint(8*i)))))
		}
		return termToValue(wrap(sum, 64, false)), actDone
	})
}

func init() {
	reg := func(name string, f intrinsic) { intrinsics[name] = f }
	reg("crypto/rand.Read", func(r *Run, g *G, a []Value) (Value, action) {
		s := a[0].(Slice)
		n, ok := s.ln.(int64)
		if !ok {
			engineFail("rand.Read into a symbolic-length buffer")
		}
		fresh := r.freshBytes("rand", int(n))
		for i := int64(0); i < n; i++ {
			s.a[i] = fresh[i]
		}
		if n >= 16 { // long random strings do not repeat
			cs := r.crypto()
			for _, prev := range cs.rands {
				if len(prev) == len(fresh) {
					r.assertTerm(tNot(eqCells(fresh, prev)))
				}
			}
			cs.rands = append(cs.rands, fresh)
		}
		return Tuple{n, Iface{}}, actDone
	})
	// time.After: a channel that does not fire within a run (timers are outside the bounded runs)
	reg("time.After", func(r *Run, g *G, a []Value) (Value, action) {
		return r.newChan(1, nil), actDone
	})
}

// ---- encoding/hex: symbolic bytes <-> two characters each, as ite terms (no forking) ----

func hexCharOf(nib *Term) *Term {
	ten := mkConst(big.NewInt(10), 8, false)
	return tIte(tLtRaw(nib, ten), wrap(rawAdd(nib, mkZConst(big.NewInt(48))), 8, false), wrap(rawAdd(nib, mkZConst(big.NewInt(87))), 8, false))
}

func (r *Run) hexEncodeCells(src []Value) []Value {
	out := make([]Value, 0, 2*len(src))
	const tbl = "0123456789abcdef"
	for _, c := range src {
		switch x := c.(type) {
		case int64:
			out = append(out, int64(tbl[byte(x)>>4]), int64(tbl[byte(x)&15]))
		case *Term:
			hi, _ := tArith("/", x, mkConst(big.NewInt(16), 8, false))
			lo, _ := tArith("%", x, mkConst(big.NewInt(16), 8, false))
			out = append(out, termToValue(hexCharOf(hi)), termToValue(hexCharOf(lo)))
		default:
			engineFail("hex encode of %T", c)
		}
	}
	return out
}

// hexNibble returns (value, valid) of one hex character.
func hexNibble(c *Term) (*Term, *Term) {
	k := func(n int64) *Term { return mkConst(big.NewInt(n), 8, false) }
	dig := tAnd(tLeRaw(k(48), c), tLeRaw(c, k(57)))
	low := tAnd(tLeRaw(k(97), c), tLeRaw(c, k(102)))
	up := tAnd(tLeRaw(k(65), c), tLeRaw(c, k(70)))
	val := tIte(dig, rawSub(c, mkZConst(big.NewInt(48))), tIte(low, rawSub(c, mkZConst(big.NewInt(87))), rawSub(c, mkZConst(big.NewInt(55)))))
	return val, tOr(dig, tOr(low, up))
}

func (r *Run) hexDecode(g *G, src Slice) (cells []Value, okAll bool) {
	n, ok := src.ln.(int64)
	if !ok {
		n, _ = r.concreteIndex(g, src.ln, r.curPosPrev(g))
	}
	valid := tTrue
	for i := int64(0); i+1 < n; i += 2 {
		h, hv := hexNibble(byteTerm(src.a[i]))
		l, lv := hexNibble(byteTerm(src.a[i+1]))
		valid = tAnd(valid, tAnd(hv, lv))
		v := wrap(rawAdd(rawMul(h, mkZConst(big.NewInt(16))), l), 9, false)
		v.width = 8
		cells = append(cells, termToValue(v))
	}
	if n%2 == 1 {
		return cells, false
	}
	if !r.branchKind("hex-valid", valid, r.curPosPrev(g)) {
		return nil, false
	}
	return cells, true
}

func init() {
	reg := func(name string, f intrinsic) { intrinsics[name] = f }
	reg("encoding/hex.EncodeToString", func(r *Run, g *G, a []Value) (Value, action) {
		s := a[0].(Slice)
		n, ok := s.ln.(int64)
		if !ok {
			n, _ = r.concreteIndex(g, s.ln, r.curPosPrev(g))
		}
		return normStr(&SymStr{b: r.hexEncodeCells(s.a[:n]), n: 2 * n}), actDone
	})
	reg("encoding/hex.Encode", func(r *Run, g *G, a []Value) (Value, action) {
		dst, s := a[0].(Slice), a[1].(Slice)
		n, ok := s.ln.(int64)
		if !ok {
			n, _ = r.concreteIndex(g, s.ln, r.curPosPrev(g))
		}
		if !r.check(g, r.cmpLen(dst.ln, ">=", 2*n), "index out of range", r.curPosPrev(g)) {
			return nil, actPanic
		}
		for i, c := range r.hexEncodeCells(s.a[:n]) {
			dst.a[i] = c
		}
		return 2 * n, actDone
	})
	reg("encoding/hex.Decode", func(r *Run, g *G, a []Value) (Value, action) {
		dst, s := a[0].(Slice), a[1].(Slice)
		cells, ok := r.hexDecode(g, s)
		if !ok {
			return Tuple{int64(0), r.codecError()}, actDone
		}
		if !r.check(g, r.cmpLen(dst.ln, ">=", int64(len(cells))), "index out of range", r.curPosPrev(g)) {
			return nil, actPanic
		}
		for i, c := range cells {
			dst.a[i] = c
		}
		return Tuple{int64(len(cells)), Iface{}}, actDone
	})
	reg("encoding/hex.DecodeString", func(r *Run, g *G, a []Value) (Value, action) {
		str := r.symOf(a[0])
		cells, ok := r.hexDecode(g, Slice{a: str.b, ln: str.n, cp: int64(len(str.b))})
		if !ok {
			return Tuple{Slice{ln: int64(0), cp: int64(0)}, r.codecError()}, actDone
		}
		return Tuple{sliceOf(cells), Iface{}}, actDone
	})
}

// ---- time.Ticker: a channel the harness feeds with verifrt.Tick() ----

func init() {
	reg := func(name string, f intrinsic) { intrinsics[name] = f }
	reg("time.NewTicker", func(r *Run, g *G, a []Value) (Value, action) {
		tp := r.eng.pkgs["time"].Type("Ticker").Type()
		p := new(Value)
		st := zero(tp).(Struct)
		ch := r.newChan(1, nil)
		st[0] = ch
		*p = st
		r.tickers = append(r.tickers, ch)
		return Ptr(p), actDone
	})
	reg("(*time.Ticker).Stop", func(r *Run, g *G, a []Value) (Value, action) { return nil, actDone })
	reg("(*time.Ticker).Reset", func(r *Run, g *G, a []Value) (Value, action) { return nil, actDone })
	reg(vrt+"Tick", func(r *Run, g *G, a []Value) (Value, action) {
		tt := r.eng.pkgs["time"].Type("Time").Type()
		// the runtime fires tickers: no happens-before edge from the harness goroutine
		saved := r.hb
		r.hb = nil
		for _, ch := range r.tickers {
			if len(ch.buf) < ch.cap || len(ch.recvq) > 0 {
				r.trySend(g, ch, zero(tt))
			}
		}
		r.hb = saved
		return nil, actSync
	})
}

// ---- sync/atomic.Value (its real body reinterprets memory through unsafe pointers) ----

func init() {
	reg := func(name string, f intrinsic) { intrinsics[name] = f }
	get := func(r *Run, p Ptr) Value {
		if v, ok := r.attach[p]; ok {
			return v
		}
		return Iface{}
	}
	reg("(*sync/atomic.Value).Load", func(r *Run, g *G, a []Value) (Value, action) {
		p := a[0].(Ptr)
		r.hbAtomicLoad(g, p)
		return get(r, p), actSync
	})
	reg("(*sync/atomic.Value).Store", func(r *Run, g *G, a []Value) (Value, action) {
		p := a[0].(Ptr)
		if iv, ok := a[1].(Iface); ok && iv.t == nil {
			r.goPanic(g, Iface{t: r.eng.runtimeErrorType, v: "sync/atomic: store of nil value into Value"}, "sync/atomic: store of nil value into Value")
			return nil, actPanic
		}
		r.hbAtomicStore(g, p)
		r.attach[p] = a[1]
		return nil, actSync
	})
	reg("(*sync/atomic.Value).Swap", func(r *Run, g *G, a []Value) (Value, action) {
		p := a[0].(Ptr)
		r.hbAtomic(g, p)
		old := get(r, p)
		r.attach[p] = a[1]
		return old, actSync
	})
	reg("(*sync/atomic.Value).CompareAndSwap", func(r *Run, g *G, a []Value) (Value, action) {
		p := a[0].(Ptr)
		r.hbAtomic(g, p)
		eq, ok := safeEq(get(r, p), a[1])
		if ok && eq == true {
			r.attach[p] = a[2]
			return true, actSync
		}
		return false, actSync
	})
}
