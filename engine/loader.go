package main

// Loading /repo's current source into go/ssa with the harness overlay, lazy
// evaluation of package-level variable initialisers, and synchronous nested calls.

import (
	"fmt"
	"go/types"
	"os"
	"path/filepath"
	"sort"
	"strings"
	"time"

	"golang.org/x/tools/go/packages"
	"golang.org/x/tools/go/ssa"
	"golang.org/x/tools/go/ssa/ssautil"
)

const modulePath = "github.com/bartossh/Computantis/src"

// repoSrc is the module root of the repository under test: /repo/src, always, for the registered
// checks; GOSYM_REPO points the mutation-matrix tooling at a scratch worktree instead.
var repoSrc = func() string {
	if d := os.Getenv("GOSYM_REPO"); d != "" {
		return filepath.Join(d, "src")
	}
	return "/repo/src"
}()

func harnessRoot() string {
	if d := os.Getenv("VERIF_HARNESS_DIR"); d != "" {
		return d
	}
	exe, err := os.Executable()
	if err == nil {
		d := filepath.Join(filepath.Dir(filepath.Dir(exe)), "harness")
		if _, err := os.Stat(d); err == nil {
			return d
		}
	}
	return "/verif/harness"
}

// buildOverlay maps harness files into the module tree. Only the sub-directories
// named in pkgs (plus verifrt) are injected.
func buildOverlay(pkgs []string) (map[string][]byte, map[string]string, error) {
	root := harnessRoot()
	ov := map[string][]byte{}
	files := map[string]string{} // virtual -> real
	seen := map[string]bool{}
	for _, p := range append([]string{"verifrt"}, pkgs...) {
		if seen[p] {
			continue
		}
		seen[p] = true
		dir := filepath.Join(root, p)
		ents, err := os.ReadDir(dir)
		if err != nil {
			if p == "verifrt" {
				return nil, nil, err
			}
			continue
		}
		for _, e := range ents {
			if e.IsDir() || !strings.HasSuffix(e.Name(), ".go") {
				continue
			}
			real := filepath.Join(dir, e.Name())
			buf, err := os.ReadFile(real)
			if err != nil {
				return nil, nil, err
			}
			virt := filepath.Join(repoSrc, p, e.Name())
			ov[virt] = buf
			files[virt] = real
		}
	}
	return ov, files, nil
}

func goEnv() []string {
	env := os.Environ()
	env = append(env, "GOFLAGS=-mod=mod", "GOPROXY=off", "GOSUMDB=off", "GOTOOLCHAIN=local")
	return env
}

func loadEngine(pkgDirs []string, opts Options) (*Engine, error) {
	t0 := time.Now()
	ov, _, err := buildOverlay(pkgDirs)
	if err != nil {
		return nil, err
	}
	cfg := &packages.Config{
		Mode:       packages.LoadAllSyntax,
		Dir:        repoSrc,
		BuildFlags: []string{"-tags=verif"},
		Overlay:    ov,
		Env:        goEnv(),
	}
	var patterns []string
	seen := map[string]bool{}
	for _, p := range append([]string{"verifrt"}, pkgDirs...) {
		if !seen[p] {
			patterns = append(patterns, "./"+p)
			seen[p] = true
		}
	}
	initial, err := packages.Load(cfg, patterns...)
	if err != nil {
		return nil, err
	}
	var errs []string
	packages.Visit(initial, nil, func(p *packages.Package) {
		for _, e := range p.Errors {
			if strings.HasPrefix(p.PkgPath, modulePath) || len(errs) < 5 {
				errs = append(errs, e.Error())
			}
		}
	})
	if len(errs) > 0 {
		return nil, fmt.Errorf("load errors (does /repo build?):\n  %s", strings.Join(errs, "\n  "))
	}
	prog, _ := ssautil.AllPackages(initial, ssa.InstantiateGenerics)
	e := &Engine{
		prog: prog, pkgs: map[string]*ssa.Package{}, fnInfos: map[*ssa.Function]*fnInfo{},
		redirects: map[string]*ssa.Function{}, syncFuncs: map[string]bool{}, opts: opts,
		funcsSeen: map[string]int{}, runtimeErrorType: types.Typ[types.String], summarise: map[string]bool{},
	}
	for _, n := range defaultSummarise {
		e.summarise[n] = true
	}
	for _, p := range prog.AllPackages() {
		e.pkgs[p.Pkg.Path()] = p
	}
	// build every package up front: lazy Package.Build() from concurrently running harness
	// workers would let one worker read half-built function bodies of another's build
	tb := time.Now()
	prog.Build()
	e.buildSeconds = time.Since(tb).Seconds()
	e.setupRedirects()
	e.loadSeconds = time.Since(t0).Seconds()
	return e, nil
}

// harnesses returns the VH_<id>_* functions of the loaded module packages.
func (e *Engine) harnesses(id string) []*ssa.Function {
	var fns []*ssa.Function
	prefix := "VH_" + id + "_"
	for path, p := range e.pkgs {
		if !strings.HasPrefix(path, modulePath) {
			continue
		}
		for name, m := range p.Members {
			if f, ok := m.(*ssa.Function); ok && strings.HasPrefix(name, prefix) {
				fns = append(fns, f)
			}
		}
	}
	sort.Slice(fns, func(i, j int) bool { return fns[i].String() < fns[j].String() })
	return fns
}

var redirectTable = map[string]string{
	"errors.Is":                           "ModelErrorsIs",
	"errors.As":                           "",
	"internal/bytealg.Equal":              "ModelBytesEqual",
	"internal/bytealg.Compare":            "ModelBytesCompare",
	"internal/bytealg.IndexByte":          "ModelIndexByte",
	"internal/bytealg.IndexByteString":    "ModelIndexByteString",
	"internal/bytealg.Count":              "ModelCount",
	"internal/bytealg.CountString":        "ModelCountString",
	"internal/bytealg.Index":              "ModelIndex",
	"internal/bytealg.IndexString":        "ModelIndexString",
	"internal/bytealg.LastIndexByte":      "ModelLastIndexByte",
	"internal/bytealg.LastIndexByteString": "ModelLastIndexByteString",
	"internal/bytealg.MakeNoZero":         "ModelMakeNoZero",
	"fmt.Errorf":                          "ModelErrorf",
}

func (e *Engine) setupRedirects() {
	vp := e.pkgs[modulePath+"/verifrt"]
	if vp == nil {
		return
	}
	for from, to := range redirectTable {
		if to == "" {
			continue
		}
		if f := vp.Func(to); f != nil {
			e.redirects[from] = f
		}
	}
	// further redirects declared by convention: verifrt.Model_<encoded name>
	for name, m := range vp.Members {
		f, ok := m.(*ssa.Function)
		if !ok {
			continue
		}
		if target, ok := modelTargets[name]; ok {
			e.redirects[target] = f
		}
	}
	if ep := e.pkgs["errors"]; ep != nil {
		e.redirects["github.com/pkg/errors.New"] = ep.Func("New")
	}
	if f := vp.Func("ModelErrorf"); f != nil {
		e.redirects["github.com/pkg/errors.Errorf"] = f
	}
	for k := range intrinsics {
		switch {
		case strings.HasPrefix(k, "(*sync."), strings.HasPrefix(k, "sync/atomic."), k == vrt+"SyncPoint", k == "runtime.Gosched", k == "time.Sleep":
			e.syncFuncs[k] = true
		}
	}
	delete(e.syncFuncs, "(*sync.Once).Do")
	for from, to := range e.redirects {
		if e.syncFuncs[to.String()] {
			e.syncFuncs[from] = true
		}
	}
}

// modelTargets maps verifrt model function names to the library functions they replace.
var modelTargets = map[string]string{
	"ModelNewDB":              "github.com/bartossh/Computantis/src/verifrt.NewDB",
	"ModelDBUpdate":           "(*github.com/dgraph-io/badger/v4.DB).Update",
	"ModelDBView":             "(*github.com/dgraph-io/badger/v4.DB).View",
	"ModelDBBackup":           "(*github.com/dgraph-io/badger/v4.DB).Backup",
	"ModelDBClose":            "(*github.com/dgraph-io/badger/v4.DB).Close",
	"ModelDBRunValueLogGC":    "(*github.com/dgraph-io/badger/v4.DB).RunValueLogGC",
	"ModelTxnGet":             "(*github.com/dgraph-io/badger/v4.Txn).Get",
	"ModelTxnSet":             "(*github.com/dgraph-io/badger/v4.Txn).Set",
	"ModelTxnSetEntry":        "(*github.com/dgraph-io/badger/v4.Txn).SetEntry",
	"ModelTxnDelete":          "(*github.com/dgraph-io/badger/v4.Txn).Delete",
	"ModelTxnDiscard":         "(*github.com/dgraph-io/badger/v4.Txn).Discard",
	"ModelTxnNewIterator":     "(*github.com/dgraph-io/badger/v4.Txn).NewIterator",
	"ModelNewEntry":           "github.com/dgraph-io/badger/v4.NewEntry",
	"ModelItemKey":            "(*github.com/dgraph-io/badger/v4.Item).Key",
	"ModelItemValue":          "(*github.com/dgraph-io/badger/v4.Item).Value",
	"ModelItemValueCopy":      "(*github.com/dgraph-io/badger/v4.Item).ValueCopy",
	"ModelIterClose":          "(*github.com/dgraph-io/badger/v4.Iterator).Close",
	"ModelIterSeek":           "(*github.com/dgraph-io/badger/v4.Iterator).Seek",
	"ModelIterRewind":         "(*github.com/dgraph-io/badger/v4.Iterator).Rewind",
	"ModelIterNext":           "(*github.com/dgraph-io/badger/v4.Iterator).Next",
	"ModelIterValid":          "(*github.com/dgraph-io/badger/v4.Iterator).Valid",
	"ModelIterValidForPrefix": "(*github.com/dgraph-io/badger/v4.Iterator).ValidForPrefix",
	"ModelIterItem":           "(*github.com/dgraph-io/badger/v4.Iterator).Item",
	"ModelNewBigCache":        "github.com/allegro/bigcache.NewBigCache",
	"ModelCacheGet":           "(*github.com/allegro/bigcache.BigCache).Get",
	"ModelCacheSet":           "(*github.com/allegro/bigcache.BigCache).Set",
	"ModelCacheDelete":        "(*github.com/allegro/bigcache.BigCache).Delete",
	"ModelCacheClose":         "(*github.com/allegro/bigcache.BigCache).Close",
	"ModelCacheLen":           "(*github.com/allegro/bigcache.BigCache).Len",
	"ModelAESNewCipher":       "crypto/aes.NewCipher",
	"ModelNewGCM":             "crypto/cipher.NewGCM",
	"ModelReadFull":           "io.ReadFull",
	"ModelOsCreate":           "os.Create",
	"ModelFileClose":          "(*os.File).Close",
}

func registerModel(modelName, target string) { modelTargets[modelName] = target }

// ---- globals ----

func (r *Run) global(g *ssa.Global) Ptr {
	if p, ok := r.globals[g]; ok {
		return p
	}
	p := new(Value)
	*p = zero(g.Type().Underlying().(*types.Pointer).Elem())
	r.globals[g] = Ptr(p)
	if g.Pkg != nil {
		r.initGlobal(g, Ptr(p))
	}
	return Ptr(p)
}

// initGlobal evaluates the package initialiser of g lazily (pure initialisers only).
func (r *Run) initGlobal(g *ssa.Global, p Ptr) {
	initFn := g.Pkg.Func("init")
	if initFn == nil {
		return
	}
	if initFn.Blocks == nil {
		g.Pkg.Build()
	}
	for _, b := range initFn.Blocks {
		for _, in := range b.Instrs {
			st, ok := in.(*ssa.Store)
			if !ok {
				continue
			}
			root, path := addrRoot(st.Addr)
			if root != ssa.Value(g) {
				continue
			}
			v, ok := r.evalInit(initFn, st.Val, 0)
			if !ok {
				r.trace("global %s: initialiser not evaluated (left zero)", g)
				continue
			}
			dst := p
			for _, step := range path {
				dst = step(dst)
				if dst == nil {
					break
				}
			}
			if dst != nil {
				storeVal(dst, v)
			}
		}
	}
}

type addrStep func(Ptr) Ptr

// addrRoot follows FieldAddr/IndexAddr chains (constant indexes) back to their base.
func addrRoot(v ssa.Value) (ssa.Value, []addrStep) {
	switch x := v.(type) {
	case *ssa.FieldAddr:
		root, path := addrRoot(x.X)
		f := x.Field
		return root, append(path, func(p Ptr) Ptr {
			s, ok := (*p).(Struct)
			if !ok {
				return nil
			}
			return &s[f]
		})
	case *ssa.IndexAddr:
		c, ok := x.Index.(*ssa.Const)
		if !ok {
			return nil, nil
		}
		root, path := addrRoot(x.X)
		i := int(c.Int64())
		return root, append(path, func(p Ptr) Ptr {
			a, ok := (*p).(Array)
			if !ok || i >= len(a) {
				return nil
			}
			return &a[i]
		})
	}
	return v, nil
}

func (r *Run) evalInit(initFn *ssa.Function, v ssa.Value, depth int) (Value, bool) {
	if depth > 20 {
		return nil, false
	}
	switch x := v.(type) {
	case *ssa.Const:
		return r.constValue(x), true
	case *ssa.Global:
		return r.global(x), true
	case *ssa.Function:
		return &Closure{fn: x}, true
	case *ssa.MakeInterface:
		iv, ok := r.evalInit(initFn, x.X, depth+1)
		if !ok {
			return nil, false
		}
		return Iface{t: x.X.Type(), v: iv}, true
	case *ssa.ChangeType:
		return r.evalInit(initFn, x.X, depth+1)
	case *ssa.ChangeInterface:
		return r.evalInit(initFn, x.X, depth+1)
	case *ssa.Convert:
		iv, ok := r.evalInit(initFn, x.X, depth+1)
		if !ok {
			return nil, false
		}
		cv, ok := r.convert(nil, iv, x.X.Type(), x.Type())
		return cv, ok
	case *ssa.UnOp:
		if x.Op.String() == "*" {
			pv, ok := r.evalInit(initFn, x.X, depth+1)
			if !ok {
				return nil, false
			}
			p, ok := pv.(Ptr)
			if !ok || p == nil {
				return nil, false
			}
			return loadVal(p), true
		}
		return nil, false
	case *ssa.Alloc:
		p := new(Value)
		*p = zero(x.Type().Underlying().(*types.Pointer).Elem())
		// apply the initialising stores of the composite literal
		for _, b := range initFn.Blocks {
			for _, in := range b.Instrs {
				st, ok := in.(*ssa.Store)
				if !ok {
					continue
				}
				root, path := addrRoot(st.Addr)
				if root != ssa.Value(x) {
					continue
				}
				sv, ok := r.evalInit(initFn, st.Val, depth+1)
				if !ok {
					return nil, false
				}
				dst := Ptr(p)
				for _, step := range path {
					dst = step(dst)
					if dst == nil {
						return nil, false
					}
				}
				storeVal(dst, sv)
			}
		}
		return Ptr(p), true
	case *ssa.Slice:
		if x.Low != nil || x.High != nil || x.Max != nil {
			return nil, false
		}
		pv, ok := r.evalInit(initFn, x.X, depth+1)
		if !ok {
			return nil, false
		}
		p, ok := pv.(Ptr)
		if !ok || p == nil {
			return nil, false
		}
		arr, ok := (*p).(Array)
		if !ok {
			return nil, false
		}
		return Slice{a: nonNil([]Value(arr)), ln: int64(len(arr)), cp: int64(len(arr))}, true
	case *ssa.MakeMap:
		mt := x.Type().Underlying().(*types.Map)
		m := newMap(mt.Key(), mt.Elem())
		for _, b := range initFn.Blocks {
			for _, in := range b.Instrs {
				mu, ok := in.(*ssa.MapUpdate)
				if !ok || mu.Map != ssa.Value(x) {
					continue
				}
				k, ok1 := r.evalInit(initFn, mu.Key, depth+1)
				val, ok2 := r.evalInit(initFn, mu.Value, depth+1)
				if !ok1 || !ok2 {
					return nil, false
				}
				r.mapSet(m, k, val)
			}
		}
		return m, true
	case *ssa.Call:
		callee := x.Call.StaticCallee()
		if callee == nil || x.Call.IsInvoke() {
			return nil, false
		}
		var args []Value
		for _, a := range x.Call.Args {
			av, ok := r.evalInit(initFn, a, depth+1)
			if !ok {
				return nil, false
			}
			args = append(args, av)
		}
		return r.callSync(&Closure{fn: callee}, args)
	case *ssa.FieldAddr, *ssa.IndexAddr:
		root, path := addrRoot(x)
		if root == nil {
			return nil, false
		}
		pv, ok := r.evalInit(initFn, root, depth+1)
		if !ok {
			return nil, false
		}
		dst, ok := pv.(Ptr)
		if !ok {
			return nil, false
		}
		for _, step := range path {
			dst = step(dst)
			if dst == nil {
				return nil, false
			}
		}
		return dst, true
	case *ssa.MakeClosure:
		fn := x.Fn.(*ssa.Function)
		env := make([]Value, len(x.Bindings))
		for i, b := range x.Bindings {
			bv, ok := r.evalInit(initFn, b, depth+1)
			if !ok {
				return nil, false
			}
			env[i] = bv
		}
		return &Closure{fn: fn, env: env}, true
	}
	return nil, false
}

// callSync runs a call to completion on a private goroutine (no scheduling).
func (r *Run) callSync(f *Closure, args []Value) (res Value, ok bool) {
	g := &G{id: -1, held: map[interface{}]int{}}
	// a receiving frame with one slot
	holder := &Frame{fn: f.fn, info: &fnInfo{slots: map[ssa.Value]int{}, n: 1}, env: make([]Value, 1), block: &ssa.BasicBlock{}, retSlot: -1}
	g.stack = []*Frame{holder}
	saved := r.cur
	r.cur = g
	defer func() { r.cur = saved }()
	r.invokeOn(g, holder, f, args, 0, false)
	for len(g.stack) > 1 {
		if g.state == GBlocked {
			engineFail("nested synchronous call blocked in %s", f.fn)
		}
		r.step(g)
		if g.panicVal != nil && len(g.stack) <= 1 {
			return nil, false
		}
	}
	return holder.env[0], true
}

// sourceLine returns the trimmed text of a source line (overlay files included).
func (e *Engine) sourceLine(file string, line int) string {
	e.mu.Lock()
	defer e.mu.Unlock()
	if e.srcLines == nil {
		e.srcLines = map[string][]string{}
	}
	ls, ok := e.srcLines[file]
	if !ok {
		buf, err := os.ReadFile(file)
		if err == nil {
			ls = strings.Split(string(buf), "\n")
		}
		e.srcLines[file] = ls
	}
	if line-1 >= 0 && line-1 < len(ls) {
		return strings.TrimSpace(ls[line-1])
	}
	return fmt.Sprintf("%s:%d", filepath.Base(file), line)
}
