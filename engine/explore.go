package main

// Path exploration: re-execution DFS over a decision log (DESIGN A.3), the
// solver-facing part of a run (path condition, feasibility, assertions), and
// verdict bookkeeping.

import (
	"fmt"
	"go/types"
	"math/big"
	"os"
	"sort"
	"strings"
	"sync"
	"time"

	"golang.org/x/tools/go/ssa"
)

type Options struct {
	MaxInstrs   int64
	MaxSymAlloc int64
	Tier        string
	Seed        int64
	Workers     int
	TimeoutMs   int
	MaxPaths    int
	Verbose     bool
	DumpQueries string
}

type Engine struct {
	prog             *ssa.Program
	pkgs             map[string]*ssa.Package
	fnInfos          map[*ssa.Function]*fnInfo
	mu               sync.Mutex
	summarise        map[string]bool
	redirects        map[string]*ssa.Function
	syncFuncs        map[string]bool
	runtimeErrorType types.Type
	opts             Options
	funcsSeen        map[string]int
	initOrder        []*ssa.Package
	globalInit       map[*ssa.Global]bool
	verifrtPath      string
	modulePath       string
	loadSeconds      float64
	buildSeconds     float64
	srcLines         map[string][]string
}

type Decision struct {
	Kind  string `json:"kind"`
	N     int    `json:"n"`
	Taken int    `json:"taken"`
	Pos   string `json:"pos"`
}

type NondetRec struct {
	Name string `json:"name"`
	Kind string `json:"kind"` // u8,u16,u32,u64,i64,bool,choose,bytes,len
	Var  string `json:"-"`
	Val  string `json:"val"`
	term    *Term
	lit     *big.Int
	bytes   []*Term
	lenTerm *Term
	lenLit  int64
}

type Verdict struct {
	Harness   string        `json:"harness"`
	Assertion string        `json:"assertion"`
	Kind      string        `json:"kind"` // assert, panic, deadlock, leak, race, unwind
	Msg       string        `json:"msg"`
	Pos       string        `json:"pos"`
	Nondet    []NondetRec   `json:"nondet"`
	Decisions []Decision    `json:"decisions"`
	Blocked   []blockedInfo `json:"blocked,omitempty"`
	Trace     []string      `json:"trace,omitempty"`
	SolverS   float64       `json:"solver_s"`
	Schedule  bool          `json:"schedule_dependent"`
}

type RunStats struct {
	Paths        int
	Infeasible   int
	Feasibility  int
	Final        int
	FinalUnsat   int
	FinalSat     int
	Unknown      int
	Trivial      int
	Instrs       int64
	Reaches      map[string]int
	AssertsSeen  map[string]int
	SolverDur    time.Duration
	Schedules    int
	MaxDecisions int
	Aborted      map[string]int
	Samples      []string
	Summaries    int
	Cached       int
	FinalCached  int
	SearchOnly   bool           // a bug-hunting harness that stopped early (not exhaustive)
	ForkSites    map[string]int // decision sites that produced alternatives (new forks)
}

func newStats() *RunStats {
	return &RunStats{Reaches: map[string]int{}, AssertsSeen: map[string]int{}, Aborted: map[string]int{}, ForkSites: map[string]int{}}
}

func (s *RunStats) merge(o *RunStats) {
	s.Paths += o.Paths
	s.Infeasible += o.Infeasible
	s.Feasibility += o.Feasibility
	s.Final += o.Final
	s.FinalUnsat += o.FinalUnsat
	s.FinalSat += o.FinalSat
	s.Unknown += o.Unknown
	s.Trivial += o.Trivial
	s.Instrs += o.Instrs
	s.SolverDur += o.SolverDur
	s.Schedules += o.Schedules
	s.Summaries += o.Summaries
	s.SearchOnly = s.SearchOnly || o.SearchOnly
	s.Cached += o.Cached
	s.FinalCached += o.FinalCached
	if o.MaxDecisions > s.MaxDecisions {
		s.MaxDecisions = o.MaxDecisions
	}
	for k, v := range o.Reaches {
		s.Reaches[k] += v
	}
	for k, v := range o.AssertsSeen {
		s.AssertsSeen[k] += v
	}
	for k, v := range o.Aborted {
		s.Aborted[k] += v
	}
	for k, v := range o.ForkSites {
		s.ForkSites[k] += v
	}
	if len(s.Samples) < 6 {
		s.Samples = append(s.Samples, o.Samples...)
	}
}

// Run is one execution of a harness along one decision prefix.
type Run struct {
	eng     *Engine
	sol     *Solver
	harness *ssa.Function
	hname   string

	prefix   []int
	log      []Decision
	newAlts  [][]int
	printer  *printer
	pcCount  int
	gs       []*G
	cur      *G
	globals  map[*ssa.Global]Ptr
	nondets  []*NondetRec
	nameSeq  map[string]int
	verdicts []*Verdict
	violated map[string]int // shared per harness: counterexamples kept per assertion (maxCexPerAssertion alternatives for replay)
	vmu      *sync.Mutex
	stats    *RunStats
	instrs   int64

	syncObjs     map[Ptr]interface{}
	attach       map[Ptr]Value
	chanCounter  int
	mutexCounter int
	opaqueCount  int

	exploreSched   bool
	maxPreemptions int
	preemptions    int
	drainAfterMain bool
	checkLeaks     bool
	permuteMaps    int
	panicsOK       bool // harness expects panics to be recorded, not fatal to exploration
	hb             *hbTracker
	traceLog       []string
	nowNanos       Value
	initDone       map[*ssa.Package]bool
	pathDead       bool
	uf             map[string][]ufApp
	clockTicks     int64
	panicSite      string
	ctxs           []*subCtx
	localDepth     int
	noSummaries    bool
	hbDepth        int
	tickers        []*ChanObj
	searchOnly     int
	searchBudget   int
	auxCounter     int
	cs             *cryptoState
	stickyPerm     map[stickyKey]int
	runRedirects   map[string]*Closure // harness-installed replacements (verifrt.Redirect)
	pcHash         [16]byte
	pcHashStack    [][16]byte
	scopeOpen      bool
	qcache         *sync.Map
}

type ufApp struct {
	args []Value
	res  Value
}

func (r *Run) trace(format string, a ...interface{}) {
	if len(r.traceLog) < 400 {
		r.traceLog = append(r.traceLog, fmt.Sprintf(format, a...))
	}
}

func (r *Run) noteFunction(fn *ssa.Function) {
	r.eng.mu.Lock()
	if _, ok := r.eng.funcsSeen[fn.String()]; !ok {
		n := 0
		for _, b := range fn.Blocks {
			n += len(b.Instrs)
		}
		r.eng.funcsSeen[fn.String()] = n
	}
	r.eng.mu.Unlock()
}

// ---- solver glue ----

func (r *Run) flushDefs() {
	if r.printer.out.Len() > 0 {
		r.sol.Send(strings.TrimRight(r.printer.out.String(), "\n"))
		r.printer.out.Reset()
	}
}

func (r *Run) assertTerm(t *Term) {
	if t.isTrue() {
		return
	}
	th := hashTerm(t)
	r.pcHash = hashBytes(r.pcHash[:], th[:])
	name := r.printer.ref(t)
	r.flushDefs()
	r.sol.Send("(assert " + name + ")")
	r.pcCount++
}

// satWith checks pc ∧ t.
func (r *Run) satWith(t *Term, final bool) string {
	r.scopeOpen = false
	if t.isFalse() {
		return "unsat"
	}
	th := hashTerm(t)
	key := hashBytes(r.pcHash[:], th[:])
	if r.qcache != nil {
		if c, ok := r.qcache.Load(key); ok && (!final || c.(string) == "unsat") {
			r.stats.Cached++
			if final {
				r.stats.FinalCached++
			}
			return c.(string)
		}
	}
	defer func() { r.scopeOpen = true }()
	res := r.satWithSolver(t, final)
	if r.qcache != nil && res != "unknown" {
		r.qcache.Store(key, res)
	}
	return res
}

func (r *Run) satWithSolver(t *Term, final bool) string {
	name := r.printer.ref(t)
	r.flushDefs()
	r.sol.Send("(push)")
	r.sol.Send("(assert " + name + ")")
	t0 := time.Now()
	res := r.sol.Check()
	r.stats.SolverDur += time.Since(t0)
	if final {
		r.stats.Final++
	} else {
		r.stats.Feasibility++
	}
	if res == "unknown" {
		r.stats.Unknown++
		if r.eng.opts.Verbose && r.stats.Unknown <= 2 {
			fmt.Fprintf(os.Stderr, "  unknown (%s) after %.1fs: %s\n", r.hname, time.Since(t0).Seconds(), r.sol.LastErr)
		}
	}
	return res
}

func (r *Run) popScope() {
	if r.scopeOpen {
		r.sol.Send("(pop)")
		r.scopeOpen = false
	}
}

func (r *Run) declareVar(t *Term) {
	if t.sort == SBool {
		r.pcHash = hashBytes(r.pcHash[:], []byte("declb"), []byte(t.name))
	} else {
		r.pcHash = hashBytes(r.pcHash[:], []byte("decli"), []byte(t.name), []byte(t.lo.String()), []byte(t.hi.String()))
	}
	if t.sort == SBool {
		r.sol.Send(fmt.Sprintf("(declare-const %s Bool)", smtName(t.name)))
		return
	}
	r.sol.Send(fmt.Sprintf("(declare-const %s Int)", smtName(t.name)))
	r.sol.Send(fmt.Sprintf("(assert (and (<= %s %s) (<= %s %s)))", bigStr(t.lo), smtName(t.name), smtName(t.name), bigStr(t.hi)))
}

// decide takes the k-th decision of the run. cond(i) is the constraint of
// alternative i (nil func or nil term = unconstrained).
func (r *Run) decide(kind string, n int, cond func(i int) *Term, pos string) int {
	if n <= 0 {
		engineFail("decide with no alternatives")
	}
	ctx := r.ctx()
	logp, prefix := &r.log, r.prefix
	if ctx != nil {
		logp, prefix = &ctx.log, ctx.prefix
	}
	k := len(*logp)
	condOf := func(i int) *Term {
		if cond == nil {
			return tTrue
		}
		c := cond(i)
		if c == nil {
			return tTrue
		}
		return c
	}
	var take int
	if k < len(prefix) {
		take = prefix[k]
		if take >= n {
			engineFail("replayed decision %d out of range (%d alternatives) at %s: nondeterministic engine?", take, n, pos)
		}
		r.assertTerm(condOf(take))
	} else {
		take = -1
		var feasible []int
		unknownLeft := n
		for i := 0; i < n; i++ {
			c := condOf(i)
			unknownLeft--
			if c.isFalse() {
				continue
			}
			if c.isTrue() {
				feasible = append(feasible, i)
				continue
			}
			// if every other alternative was infeasible the last one must be feasible (pc is sat)
			if len(feasible) == 0 && unknownLeft == 0 && kind != "mapkey" && kind != "index" {
				feasible = append(feasible, i)
				continue
			}
			res := r.satWith(c, false)
			r.popScope()
			if res != "unsat" {
				feasible = append(feasible, i)
			}
		}
		if len(feasible) == 0 {
			r.stats.Infeasible++
			panic(abortRun{"no feasible alternative at " + pos})
		}
		take = feasible[0]
		base := make([]int, 0, k+1)
		for _, d := range *logp {
			base = append(base, d.Taken)
		}
		if len(feasible) > 1 && ctx == nil {
			r.stats.ForkSites[kind+" @ "+pos] += len(feasible) - 1
		}
		for _, alt := range feasible[1:] {
			p := append(append([]int{}, base...), alt)
			if ctx != nil {
				ctx.newAlts = append(ctx.newAlts, p)
			} else {
				r.newAlts = append(r.newAlts, p)
			}
		}
		r.assertTerm(condOf(take))
	}
	if ctx != nil {
		ctx.conds = append(ctx.conds, condOf(take))
	}
	*logp = append(*logp, Decision{Kind: kind, N: n, Taken: take, Pos: pos})
	return take
}

func (r *Run) branch(c *Term, pos string) bool { return r.branchKind("branch", c, pos) }

func (r *Run) branchKind(kind string, c *Term, pos string) bool {
	if c.isTrue() {
		return true
	}
	if c.isFalse() {
		return false
	}
	k := r.decide(kind, 2, func(i int) *Term {
		if i == 0 {
			return c
		}
		return tNot(c)
	}, pos)
	return k == 0
}

// ---- nondeterminism ----

func (r *Run) freshName(name string) string {
	r.nameSeq[name]++
	return fmt.Sprintf("%s#%d", name, r.nameSeq[name])
}

func (r *Run) nondetInt(name, kind string, width int, signed bool, lo, hi *big.Int) *Term {
	vn := r.freshName(name)
	t := mkVar(vn, width, signed)
	if lo != nil {
		t.lo = lo
	}
	if hi != nil {
		t.hi = hi
	}
	r.declareVar(t)
	r.nondets = append(r.nondets, &NondetRec{Name: name, Kind: kind, Var: vn, term: t})
	return t
}

func (r *Run) nondetBool(name string) *Term {
	vn := r.freshName(name)
	t := mkBoolVar(vn)
	r.declareVar(t)
	r.nondets = append(r.nondets, &NondetRec{Name: name, Kind: "bool", Var: vn, term: t})
	return t
}

func (r *Run) recordChoice(name string, kind string, v int64) {
	r.nondets = append(r.nondets, &NondetRec{Name: name, Kind: kind, lit: big.NewInt(v)})
}

// ---- assertions ----

func (r *Run) isViolated(id string) bool {
	r.vmu.Lock()
	defer r.vmu.Unlock()
	return r.violated[id] >= maxCexPerAssertion
}

// solverRecycleAfter: checks answered by one z3 process before it is replaced (memory hygiene only).
const solverRecycleAfter = 3000

// maxCexPerAssertion: alternatives kept per assertion id; the replay step tries them in turn, so a model
// that relies on an idealised environment value (e.g. four arbitrary bytes equal to a SHA-256 prefix) does
// not mask a constructive counterexample of the same assertion found on another path.
const maxCexPerAssertion = 4

func (r *Run) markViolated(id string) bool {
	r.vmu.Lock()
	defer r.vmu.Unlock()
	if r.violated[id] >= maxCexPerAssertion {
		return false
	}
	r.violated[id]++
	return true
}

func (r *Run) snapshotVerdict(kind, id, msg, pos string, model map[string]*big.Int) *Verdict {
	v := &Verdict{Harness: r.hname, Assertion: id, Kind: kind, Msg: msg, Pos: pos}
	v.Decisions = append(v.Decisions, r.log...)
	memo := map[int]*big.Int{}
	for _, n := range r.nondets {
		rec := *n
		if n.Kind == "bytes" {
			rec.Val = bytesVal(n, model, memo)
		} else if n.term != nil {
			rec.Val = evalTerm(n.term, model, memo).String()
		} else if n.lit != nil {
			rec.Val = n.lit.String()
		}
		v.Nondet = append(v.Nondet, rec)
	}
	for _, d := range r.log {
		if d.Kind == "sched" || d.Kind == "preempt" || d.Kind == "select" || (d.Kind == "maporder" && d.N > 1) {
			v.Schedule = true
		}
	}
	v.Trace = append(v.Trace, r.traceLog...)
	return v
}

func (r *Run) modelNow() map[string]*big.Int {
	var names []string
	for _, n := range r.nondets {
		if n.term != nil {
			names = append(names, n.Var)
		}
		for _, b := range n.bytes {
			names = append(names, b.name)
		}
		if n.lenTerm != nil {
			names = append(names, n.lenTerm.name)
		}
	}
	if len(names) == 0 {
		return map[string]*big.Int{}
	}
	m, err := r.sol.Values(names)
	if err != nil {
		engineFail("model extraction failed: %v", err)
	}
	return m
}

// assertCond implements verifrt.Assert.
func (r *Run) assertCond(g *G, cond Value, id string) {
	r.stats.AssertsSeen[id]++
	pos := r.curPosPrev(g)
	switch c := cond.(type) {
	case bool:
		if c {
			r.stats.Trivial++
			return
		}
		if r.markViolated(id) {
			// pc is satisfiable by construction; fetch a model
			res := r.satWith(tTrue, true)
			var m map[string]*big.Int
			if res == "sat" {
				m = r.modelNow()
			}
			r.popScope()
			if res == "sat" {
				r.stats.FinalSat++
				r.verdicts = append(r.verdicts, r.snapshotVerdict("assert", id, "assertion is false on this path", pos, m))
			} else {
				// the assertion is false here but the solver could not decide whether the path is feasible:
				// never a pass - reported as inconclusive
				r.unmarkViolated(id)
				r.stats.Unknown++
				r.recordUnknown(id, pos)
			}
		}
		panic(abortRun{"assertion failed (concrete)"})
	case *Term:
		if r.isViolated(id) {
			// already reported: continue under the assumption
			r.assume(c)
			return
		}
		res := r.satWith(tNot(c), true)
		switch res {
		case "sat":
			r.stats.FinalSat++
			m := r.modelNow()
			r.popScope()
			if r.markViolated(id) {
				r.verdicts = append(r.verdicts, r.snapshotVerdict("assert", id, "assertion can be false", pos, m))
			}
		case "unsat":
			r.stats.FinalUnsat++
			r.popScope()
			if len(r.stats.Samples) < 3 {
				r.stats.Samples = append(r.stats.Samples, fmt.Sprintf("%s: %s unsat after %d decisions (%s)", r.hname, id, len(r.log), pos))
			}
			return // cond is implied by pc
		default:
			r.popScope()
			r.recordUnknown(id, pos)
		}
		r.assume(c)
	default:
		engineFail("Assert on %T", cond)
	}
}

func (r *Run) unmarkViolated(id string) {
	r.vmu.Lock()
	if r.violated[id] > 0 {
		r.violated[id]--
	}
	r.vmu.Unlock()
}

func (r *Run) recordUnknown(id, pos string) {
	r.verdicts = append(r.verdicts, &Verdict{Harness: r.hname, Assertion: id, Kind: "unknown", Msg: "solver returned unknown: " + r.sol.LastErr, Pos: pos})
}

// assume adds a constraint; an infeasible path ends silently.
func (r *Run) assume(c *Term) {
	if c.isTrue() {
		return
	}
	if c.isFalse() {
		panic(abortRun{"assumption false"})
	}
	res := r.satWith(c, false)
	r.popScope()
	if res == "unsat" {
		panic(abortRun{"assumption infeasible"})
	}
	r.assertTerm(c)
}

func (r *Run) assumeValue(v Value) {
	switch c := v.(type) {
	case bool:
		if !c {
			panic(abortRun{"assumption false"})
		}
	case *Term:
		r.assume(c)
	default:
		engineFail("Assume on %T", v)
	}
}

func (r *Run) recordPanic(g *G) {
	msg := g.panicMsg
	id := r.hname + "/panic"
	site := r.panicSite
	if g.panicOrigin != "" {
		site = g.panicOrigin
	}
	if site != "" {
		id = id + "@" + site
	}
	if r.isViolated(id) {
		return
	}
	res := r.satWith(tTrue, true)
	var m map[string]*big.Int
	if res == "sat" {
		m = r.modelNow()
	}
	r.popScope()
	if res != "sat" {
		r.recordUnknown(id, site)
		return
	}
	r.stats.FinalSat++
	if r.markViolated(id) {
		v := r.snapshotVerdict("panic", id, msg, site, m)
		r.verdicts = append(r.verdicts, v)
	}
}

// ---- exploring a harness ----

type HarnessResult struct {
	Name     string
	Verdicts []*Verdict
	Stats    *RunStats
	Err      string
	Wall     time.Duration
}

// runSlots bounds the number of paths executing at any moment across all harnesses.
var runSlots = make(chan struct{}, 16)

type workQueue struct {
	mu      sync.Mutex
	cond    *sync.Cond
	items   [][]int
	active  int
	stopped bool
	total   int
}

func (q *workQueue) push(ps [][]int) {
	q.mu.Lock()
	q.items = append(q.items, ps...)
	q.total += len(ps)
	q.mu.Unlock()
	q.cond.Broadcast()
}

func (q *workQueue) pop() ([]int, bool) {
	q.mu.Lock()
	defer q.mu.Unlock()
	for {
		if q.stopped {
			return nil, false
		}
		if n := len(q.items); n > 0 {
			it := q.items[n-1]
			q.items = q.items[:n-1]
			q.active++
			return it, true
		}
		if q.active == 0 {
			q.cond.Broadcast()
			return nil, false
		}
		q.cond.Wait()
	}
}

func (q *workQueue) done() {
	q.mu.Lock()
	q.active--
	q.mu.Unlock()
	q.cond.Broadcast()
}

func (e *Engine) exploreHarness(fn *ssa.Function, workers int) *HarnessResult {
	t0 := time.Now()
	res := &HarnessResult{Name: fn.Name(), Stats: newStats()}
	q := &workQueue{}
	q.cond = sync.NewCond(&q.mu)
	q.push([][]int{{}})
	violated := map[string]int{}
	qcache := &sync.Map{}
	var vmu sync.Mutex
	var rmu sync.Mutex
	var wg sync.WaitGroup
	if workers < 1 {
		workers = 1
	}
	stopProgress := make(chan struct{})
	if e.opts.Verbose {
		go func() {
			tk := time.NewTicker(20 * time.Second)
			defer tk.Stop()
			for {
				select {
				case <-stopProgress:
					return
				case <-tk.C:
					rmu.Lock()
					q.mu.Lock()
					fmt.Fprintf(os.Stderr, "  .. %s: %.0fs paths=%d queued=%d feas=%d final=%d decisions<=%d\n", fn.Name(), time.Since(t0).Seconds(), res.Stats.Paths, len(q.items), res.Stats.Feasibility, res.Stats.Final, res.Stats.MaxDecisions)
					q.mu.Unlock()
					rmu.Unlock()
				}
			}
		}()
	}
	defer close(stopProgress)
	for w := 0; w < workers; w++ {
		wg.Add(1)
		go func() {
			defer wg.Done()
			sol, err := NewSolver(solverZ3New, e.opts.TimeoutMs)
			if err != nil {
				rmu.Lock()
				res.Err = "cannot start solver: " + err.Error()
				rmu.Unlock()
				return
			}
			defer func() { sol.Close() }()
			for {
				prefix, ok := q.pop()
				if !ok {
					return
				}
				if sol.Calls >= solverRecycleAfter && !sol.dead {
					// z3 does not give back what push/pop cycles allocated: a long-lived process grows to
					// gigabytes (16 workers x 3.5 GB ended in the kernel's OOM killer). Start a fresh one.
					sol.dead = true
				}
				if sol.dead { // killed after a timeout (or recycled): start a fresh process for the next path
					sol.Close()
					ns, err := NewSolver(solverZ3New, e.opts.TimeoutMs)
					if err != nil {
						rmu.Lock()
						res.Err = "cannot restart solver: " + err.Error()
						rmu.Unlock()
						q.done()
						return
					}
					sol = ns
				}
				run := e.newRun(fn, prefix, sol, violated, &vmu)
				run.qcache = qcache
				runSlots <- struct{}{}
				errMsg := run.execute()
				<-runSlots
				rmu.Lock()
				res.Stats.merge(run.stats)
				res.Verdicts = append(res.Verdicts, run.verdicts...)
				if errMsg != "" && res.Err == "" {
					res.Err = errMsg
				}
				tooMany := e.opts.MaxPaths > 0 && res.Stats.Paths >= e.opts.MaxPaths
				if (run.searchOnly > 0 && (len(res.Verdicts) > 0 || res.Stats.Paths >= run.searchOnly)) || (run.searchBudget > 0 && res.Stats.Paths >= run.searchBudget) {
					// a declared bug-hunting harness: stop at the first verdict or at its path budget
					res.Stats.SearchOnly = true
					rmu.Unlock()
					q.mu.Lock()
					q.stopped = true
					q.mu.Unlock()
					q.cond.Broadcast()
					q.done()
					continue
				}
				rmu.Unlock()
				if errMsg != "" || tooMany {
					q.mu.Lock()
					q.stopped = true
					q.mu.Unlock()
					q.cond.Broadcast()
					if tooMany && errMsg == "" {
						rmu.Lock()
						if res.Err == "" {
							res.Err = fmt.Sprintf("path budget exceeded (%d)", e.opts.MaxPaths)
						}
						rmu.Unlock()
					}
				} else {
					q.push(run.newAlts)
				}
				q.done()
			}
		}()
	}
	wg.Wait()
	res.Wall = time.Since(t0)
	sort.SliceStable(res.Verdicts, func(i, j int) bool { return res.Verdicts[i].Assertion < res.Verdicts[j].Assertion })
	return res
}

func (e *Engine) newRun(fn *ssa.Function, prefix []int, sol *Solver, violated map[string]int, vmu *sync.Mutex) *Run {
	return &Run{
		eng: e, sol: sol, harness: fn, hname: fn.Name(), prefix: prefix,
		printer: &printer{defined: map[int]string{}, out: &strings.Builder{}},
		globals: map[*ssa.Global]Ptr{}, nameSeq: map[string]int{}, violated: violated, vmu: vmu,
		stats: newStats(), syncObjs: map[Ptr]interface{}{}, attach: map[Ptr]Value{},
		maxPreemptions: 0, initDone: map[*ssa.Package]bool{}, uf: map[string][]ufApp{},
	}
}

// execute runs the harness once; returns a non-empty string on engine failure.
func (r *Run) execute() (errMsg string) {
	r.sol.Send("(push)")
	defer func() {
		r.sol.Send("(pop)")
		r.stats.Instrs = r.instrs
		if len(r.log) > r.stats.MaxDecisions {
			r.stats.MaxDecisions = len(r.log)
		}
		if x := recover(); x != nil {
			switch e := x.(type) {
			case abortRun:
				r.stats.Aborted[e.reason]++
				r.stats.Paths++
			case engineError:
				errMsg = fmt.Sprintf("%s: %s [at %s] stack: %s", r.hname, e.msg, r.curPos(r.cur), r.stackOf(r.cur))
			default:
				panic(x)
			}
		}
	}()
	main := r.newG("harness")
	main.isMain = true
	r.cur = main
	r.pushFrame(main, r.harness, nil, nil, -1)
	r.schedule(main)
	r.stats.Paths++
	if r.exploreSched {
		r.stats.Schedules++
	}
	if main.state != GDone {
		// deadlock: nobody can run and the harness has not returned
		id := r.hname + "/deadlock"
		if r.markViolated(id) {
			res := r.satWith(tTrue, true)
			var m map[string]*big.Int
			if res == "sat" {
				m = r.modelNow()
			}
			r.popScope()
			v := r.snapshotVerdict("deadlock", id, "no goroutine can make progress", "", m)
			v.Blocked = r.blockedGoroutines()
			r.verdicts = append(r.verdicts, v)
		}
		return ""
	}
	if r.hb != nil {
		for _, rc := range r.hb.races {
			a, b := shortFn(rc.A.fn), shortFn(rc.B.fn)
			if a > b {
				a, b = b, a
			}
			id := r.hname + "/race@" + a + " vs " + b
			if r.markViolated(id) {
				v := r.snapshotVerdict("race", id, "unsynchronised conflicting accesses: "+rc.Descr, rc.A.pos+" / "+rc.B.pos, map[string]*big.Int{})
				v.Schedule = true
				r.verdicts = append(r.verdicts, v)
			}
		}
	}
	if r.checkLeaks {
		if bl := r.blockedGoroutines(); len(bl) > 0 {
			id := r.hname + "/leak"
			if r.markViolated(id) {
				res := r.satWith(tTrue, true)
				var m map[string]*big.Int
				if res == "sat" {
					m = r.modelNow()
				}
				r.popScope()
				v := r.snapshotVerdict("leak", id, "goroutine blocked forever after the operation returned", "", m)
				v.Blocked = bl
				r.verdicts = append(r.verdicts, v)
			}
		}
	}
	return ""
}

func (r *Run) stackOf(g *G) string {
	if g == nil {
		return ""
	}
	var fns []string
	for i := len(g.stack) - 1; i >= 0 && len(fns) < 12; i-- {
		fns = append(fns, g.stack[i].fn.String())
	}
	return strings.Join(fns, " <- ")
}

func shortFn(fn string) string {
	if i := strings.LastIndex(fn, "/"); i >= 0 {
		return fn[i+1:]
	}
	return fn
}
