package main

// Channels, select, mutexes and the cooperative scheduler (DESIGN §2.5, A.6).

import (
	"fmt"
	"go/types"
	"sort"
	"strings"

	"golang.org/x/tools/go/ssa"
)

type selState struct {
	waiters []*waiter
}

type waiter struct {
	g       *G
	ch      *ChanObj
	isSend  bool
	val     Value
	sel     *selState
	idx     int
	fired   bool
	recvVal Value
	recvOk  bool
}

type wakeInfo struct{ w *waiter }

type ChanObj struct {
	id     int
	cap    int
	buf    []Value
	closed bool
	recvq  []*waiter
	sendq  []*waiter
	elem   types.Type
	// environment channels (ticker, ctx.Done model) are ordinary channels fed by models
	clock []int // HB: clock of last send per buffered slot (simplified: one clock)
}

func (r *Run) newChan(capacity int, elem types.Type) *ChanObj {
	r.chanCounter++
	return &ChanObj{id: r.chanCounter, cap: capacity, elem: elem}
}

func removeWaiter(q []*waiter, w *waiter) []*waiter {
	for i, x := range q {
		if x == w {
			return append(q[:i:i], q[i+1:]...)
		}
	}
	return q
}

func (r *Run) cancelSelect(s *selState, except *waiter) {
	if s == nil {
		return
	}
	for _, w := range s.waiters {
		if w == except || w.ch == nil {
			continue
		}
		if w.isSend {
			w.ch.sendq = removeWaiter(w.ch.sendq, w)
		} else {
			w.ch.recvq = removeWaiter(w.ch.recvq, w)
		}
	}
}

func (r *Run) fire(w *waiter) {
	w.fired = true
	r.cancelSelect(w.sel, w)
	w.g.wake = &wakeInfo{w}
	w.g.state = GRunnable
}

func (r *Run) block(g *G, desc string, obj interface{}) {
	g.state = GBlocked
	g.waitDesc = desc
	g.waitObj = obj
}

// trySend attempts a send without blocking; returns done.
func (r *Run) trySend(g *G, ch *ChanObj, v Value) (done bool, panicked bool) {
	if ch.closed {
		r.goPanic(g, Iface{t: r.eng.runtimeErrorType, v: "send on closed channel"}, "send on closed channel")
		return false, true
	}
	if len(ch.recvq) > 0 {
		w := ch.recvq[0]
		ch.recvq = ch.recvq[1:]
		w.recvVal, w.recvOk = v, true
		r.hbChanHandoff(g, w.g, ch)
		r.fire(w)
		return true, false
	}
	if len(ch.buf) < ch.cap {
		ch.buf = append(ch.buf, v)
		r.hbChanSend(g, ch)
		return true, false
	}
	return false, false
}

// tryRecv attempts a receive without blocking.
func (r *Run) tryRecv(g *G, ch *ChanObj) (v Value, ok bool, done bool) {
	if len(ch.buf) > 0 {
		v = ch.buf[0]
		ch.buf = ch.buf[1:]
		r.hbChanRecv(g, ch)
		// a blocked sender can now move its value into the buffer
		if len(ch.sendq) > 0 {
			w := ch.sendq[0]
			ch.sendq = ch.sendq[1:]
			ch.buf = append(ch.buf, w.val)
			r.hbChanSend(w.g, ch)
			r.fire(w)
		}
		return v, true, true
	}
	if len(ch.sendq) > 0 {
		w := ch.sendq[0]
		ch.sendq = ch.sendq[1:]
		r.hbChanHandoff(w.g, g, ch)
		r.fire(w)
		return w.val, true, true
	}
	if ch.closed {
		r.hbChanRecv(g, ch)
		return zero(ch.elem), false, true
	}
	return nil, false, false
}

func (r *Run) execSend(g *G, fr *Frame, x *ssa.Send) bool {
	if g.wake != nil {
		g.wake = nil
		fr.pc++
		return true
	}
	ch := r.get(fr, x.Chan).(*ChanObj)
	if ch == nil {
		r.block(g, "send on nil channel", nil)
		return true
	}
	done, panicked := r.trySend(g, ch, r.get(fr, x.X))
	if panicked {
		return false
	}
	if done {
		fr.pc++
		return true
	}
	w := &waiter{g: g, ch: ch, isSend: true, val: r.get(fr, x.X)}
	ch.sendq = append(ch.sendq, w)
	r.block(g, fmt.Sprintf("chan send (%s)", r.pos(fr, x)), ch)
	return true
}

func (r *Run) execRecv(g *G, fr *Frame, x *ssa.UnOp) bool {
	finish := func(v Value, ok bool) {
		if x.CommaOk {
			r.set(fr, x, Tuple{v, ok})
		} else {
			r.set(fr, x, v)
		}
		fr.pc++
	}
	if g.wake != nil {
		w := g.wake.w
		g.wake = nil
		finish(w.recvVal, w.recvOk)
		return true
	}
	ch := r.get(fr, x.X).(*ChanObj)
	if ch == nil {
		r.block(g, "receive from nil channel", nil)
		return true
	}
	v, ok, done := r.tryRecv(g, ch)
	if done {
		finish(v, ok)
		return true
	}
	w := &waiter{g: g, ch: ch}
	ch.recvq = append(ch.recvq, w)
	r.block(g, fmt.Sprintf("chan receive (%s)", r.pos(fr, x)), ch)
	return true
}

func (r *Run) chanClose(g *G, ch *ChanObj) bool {
	if ch == nil {
		r.goPanic(g, Iface{t: r.eng.runtimeErrorType, v: "close of nil channel"}, "close of nil channel")
		return false
	}
	if ch.closed {
		r.goPanic(g, Iface{t: r.eng.runtimeErrorType, v: "close of closed channel"}, "close of closed channel")
		return false
	}
	ch.closed = true
	r.hbChanSend(g, ch)
	for _, w := range ch.recvq {
		w.recvVal, w.recvOk = zero(ch.elem), false
		r.hbChanRecv(w.g, ch)
		r.fire(w)
	}
	ch.recvq = nil
	// blocked senders panic when they resume
	for _, w := range ch.sendq {
		w.g.state = GRunnable
		w.g.wake = nil
	}
	ch.sendq = nil
	return true
}

func (r *Run) execSelect(g *G, fr *Frame, x *ssa.Select) bool {
	result := func(idx int, recvOk bool, recvVal Value, recvIdx int) {
		t := Tuple{int64(idx), recvOk}
		for i, st := range x.States {
			if st.Dir == types.RecvOnly {
				if i == recvIdx {
					t = append(t, recvVal)
				} else {
					t = append(t, zero(st.Chan.Type().Underlying().(*types.Chan).Elem()))
				}
			}
		}
		r.set(fr, x, t)
		fr.pc++
	}
	if g.wake != nil {
		w := g.wake.w
		g.wake = nil
		if w.isSend {
			result(w.idx, false, nil, -1)
		} else {
			result(w.idx, w.recvOk, w.recvVal, w.idx)
		}
		return true
	}
	// which cases are ready now?
	var ready []int
	for i, st := range x.States {
		ch, _ := r.get(fr, st.Chan).(*ChanObj)
		if ch == nil {
			continue
		}
		if st.Dir == types.SendOnly {
			if ch.closed || len(ch.recvq) > 0 || len(ch.buf) < ch.cap {
				ready = append(ready, i)
			}
		} else {
			if len(ch.buf) > 0 || len(ch.sendq) > 0 || ch.closed {
				ready = append(ready, i)
			}
		}
	}
	if len(ready) > 0 {
		k := 0
		if len(ready) > 1 {
			k = r.decide("select", len(ready), nil, r.pos(fr, x))
		}
		i := ready[k]
		st := x.States[i]
		ch := r.get(fr, st.Chan).(*ChanObj)
		if st.Dir == types.SendOnly {
			_, panicked := r.trySend(g, ch, r.get(fr, st.Send))
			if panicked {
				return false
			}
			result(i, false, nil, -1)
		} else {
			v, ok, _ := r.tryRecv(g, ch)
			result(i, ok, v, i)
		}
		return true
	}
	if !x.Blocking {
		result(-1, false, nil, -1)
		return true
	}
	s := &selState{}
	for i, st := range x.States {
		ch, _ := r.get(fr, st.Chan).(*ChanObj)
		w := &waiter{g: g, ch: ch, sel: s, idx: i}
		if st.Dir == types.SendOnly {
			w.isSend = true
			w.val = r.get(fr, st.Send)
		}
		s.waiters = append(s.waiters, w)
		if ch == nil {
			continue
		}
		if w.isSend {
			ch.sendq = append(ch.sendq, w)
		} else {
			ch.recvq = append(ch.recvq, w)
		}
	}
	r.block(g, fmt.Sprintf("select (%s)", r.pos(fr, x)), nil)
	return true
}

// ---- mutexes ----

type MutexObj struct {
	id      int
	locked  bool
	owner   *G
	readers int
	rholders map[*G]int
	pending map[*G]bool // writers waiting (writer preference for RWMutex)
	waiters []*G
	name    string
	clock   []int
	inDag   bool
}

func (r *Run) mutexOf(p Ptr, name string) *MutexObj {
	if m, ok := r.syncObjs[p]; ok {
		return m.(*MutexObj)
	}
	r.mutexCounter++
	m := &MutexObj{id: r.mutexCounter, pending: map[*G]bool{}, rholders: map[*G]int{}, name: name}
	if r.cur != nil && len(r.cur.stack) > 0 {
		if fn := r.cur.top().fn; fn.Pkg != nil && fn.Pkg.Pkg.Path() == "github.com/heimdalr/dag" {
			m.inDag = true
		}
	}
	r.syncObjs[p] = m
	return m
}

func (r *Run) wakeWaiters(m *MutexObj) {
	for _, g := range m.waiters {
		if g.state == GBlocked && g.waitObj == m {
			g.state = GRunnable
		}
	}
	m.waiters = nil
}

func (r *Run) mutexLock(g *G, m *MutexObj) bool {
	if !m.locked && m.readers == 0 {
		m.locked, m.owner = true, g
		delete(m.pending, g)
		g.held[m]++
		r.hbAcquire(g, m)
		return true
	}
	m.pending[g] = true
	m.waiters = append(m.waiters, g)
	r.block(g, "Mutex.Lock "+m.name, m)
	return false
}

func (r *Run) mutexTryLock(g *G, m *MutexObj) bool {
	if !m.locked && m.readers == 0 {
		m.locked, m.owner = true, g
		g.held[m]++
		r.hbAcquire(g, m)
		return true
	}
	return false
}

func (r *Run) mutexUnlock(g *G, m *MutexObj) bool {
	if !m.locked {
		r.goPanic(g, Iface{t: r.eng.runtimeErrorType, v: "sync: unlock of unlocked mutex"}, "fatal error: sync: unlock of unlocked mutex")
		return false
	}
	r.hbRelease(g, m)
	m.locked = false
	if m.owner != nil {
		m.owner.held[m]--
		if m.owner.held[m] <= 0 {
			delete(m.owner.held, m)
		}
	}
	m.owner = nil
	r.wakeWaiters(m)
	return true
}

func (r *Run) mutexRLock(g *G, m *MutexObj) bool {
	if !m.locked && len(m.pending) == 0 {
		m.readers++
		m.rholders[g]++
		g.held[m]++
		r.hbAcquire(g, m)
		return true
	}
	m.waiters = append(m.waiters, g)
	r.block(g, "RWMutex.RLock "+m.name, m)
	return false
}

func (r *Run) mutexRUnlock(g *G, m *MutexObj) bool {
	if m.readers == 0 {
		r.goPanic(g, Iface{t: r.eng.runtimeErrorType, v: "sync: RUnlock of unlocked RWMutex"}, "fatal error: sync: RUnlock of unlocked RWMutex")
		return false
	}
	r.hbReleaseShared(g, m)
	m.readers--
	// the releasing goroutine may differ from the acquirer (Go allows it)
	holder := g
	if m.rholders[holder] == 0 {
		for h := range m.rholders {
			holder = h
			break
		}
	}
	m.rholders[holder]--
	if m.rholders[holder] <= 0 {
		delete(m.rholders, holder)
	}
	holder.held[m]--
	if holder.held[m] <= 0 {
		delete(holder.held, m)
	}
	r.wakeWaiters(m)
	return true
}

// ---- scheduler ----

func (r *Run) runnable() []*G {
	var rs []*G
	for _, g := range r.gs {
		if g.state == GRunnable {
			rs = append(rs, g)
		}
	}
	return rs
}

// atSyncPoint reports whether g's next instruction is a scheduling point.
func (r *Run) atSyncPoint(g *G) bool {
	if len(g.stack) == 0 {
		return false
	}
	fr := g.top()
	if fr.panicking || fr.pc >= len(fr.block.Instrs) {
		return false
	}
	switch x := fr.block.Instrs[fr.pc].(type) {
	case *ssa.Send, *ssa.Select, *ssa.Go:
		return true
	case *ssa.UnOp:
		return x.Op.String() == "<-"
	case *ssa.Call:
		if f := x.Call.StaticCallee(); f != nil {
			if !r.eng.syncFuncs[f.String()] {
				return false
			}
			// inside heimdalr/dag every public method takes muDAG first and keeps it to the end; its
			// nested cache / per-vertex mutexes are only ever taken under muDAG, so a preemption at
			// them (or at the releases) adds no behaviour beyond a preemption at the muDAG acquisition.
			if fr.fn.Pkg != nil && fr.fn.Pkg.Pkg.Path() == "github.com/heimdalr/dag" && strings.HasPrefix(f.String(), "(*sync.") {
				if !strings.HasSuffix(f.String(), "Lock") || strings.HasSuffix(f.String(), "Unlock") {
					return false
				}
				for m := range g.held {
					if mo, ok := m.(*MutexObj); ok && mo.inDag {
						return false
					}
				}
			}
			return true
		}
	case *ssa.Defer:
		return false
	case *ssa.RunDefers:
		if n := len(fr.defers); n > 0 {
			if c, ok := fr.defers[n-1].fn.(*Closure); ok && c != nil {
				return r.eng.syncFuncs[c.fn.String()]
			}
		}
	}
	return false
}

// schedule runs until the main goroutine is done (then drains others) or no progress is possible.
func (r *Run) schedule(main *G) {
	cur := main
	r.cur = cur
	steps := 0
	for {
		steps++
		if cur.state != GRunnable {
			rs := r.runnable()
			if len(rs) == 0 {
				// nobody can run: a goroutine waiting in verifrt.Settle continues
				for _, g := range r.gs {
					if g.state == GBlocked && g.waitObj == settleObj {
						g.state = GRunnable
						rs = append(rs, g)
						break
					}
				}
			}
			if len(rs) == 0 {
				return // all done or deadlock/leak: classified by caller
			}
			if main.state == GDone && !r.drainAfterMain {
				return
			}
			k := 0
			if r.exploreSched && len(rs) > 1 {
				k = r.decide("sched", len(rs), nil, "switch")
			}
			cur = rs[k]
			r.cur = cur
		} else if r.exploreSched && r.preemptions < r.maxPreemptions && r.atSyncPoint(cur) {
			rs := r.runnable()
			if len(rs) > 1 {
				// alt 0: continue; alt i: preempt to i-th other
				others := make([]*G, 0, len(rs)-1)
				for _, g := range rs {
					if g != cur {
						others = append(others, g)
					}
				}
				k := r.decide("preempt", 1+len(others), nil, r.curPos(cur))
				if k > 0 {
					r.preemptions++
					r.trace("preempt g%d -> g%d at %s", cur.id, others[k-1].id, r.curPos(cur))
					cur = others[k-1]
					r.cur = cur
					// the preempting goroutine runs its next step unconditionally
					r.step(cur)
					continue
				}
			}
		}
		r.step(cur)
	}
}

type blockedInfo struct {
	G     int    `json:"g"`
	Where string `json:"where"`
	Wait  string `json:"wait"`
	Held  string `json:"held"`
	Made  string `json:"created"`
}

func (r *Run) blockedGoroutines() []blockedInfo {
	var res []blockedInfo
	for _, g := range r.gs {
		if g.state != GBlocked {
			continue
		}
		var held []string
		for m := range g.held {
			if mo, ok := m.(*MutexObj); ok {
				held = append(held, mo.name)
			}
		}
		sort.Strings(held)
		where := "?"
		if len(g.stack) > 0 {
			var fns []string
			for i := len(g.stack) - 1; i >= 0 && len(fns) < 4; i-- {
				fns = append(fns, g.stack[i].fn.String())
			}
			where = strings.Join(fns, " <- ")
		}
		res = append(res, blockedInfo{G: g.id, Where: where, Wait: g.waitDesc, Held: strings.Join(held, ","), Made: g.created})
	}
	return res
}

func (r *Run) onGoroutineExit(g *G) {
	if r.hb != nil {
		r.hb.exit(g)
	}
}

func (r *Run) onGoroutinePanic(g *G) {
	// an uncaught panic terminates the program: record and stop the run
	r.recordPanic(g)
	panic(abortRun{"uncaught panic"})
}
