//go:build verif

package accountant

// C14: a node that syncs the DAG from a peer reproduces the peer's ledger. The real StreamDAG
// goroutine (real ancestor walker) feeds the real LoadDag of a fresh book, for every DAG shape in the
// bound and every tip / ancestor iteration order; every single corruption of a stream leaves the
// target not loaded.

import (
	"context"

	"github.com/bartossh/Computantis/src/spice"
	"github.com/bartossh/Computantis/src/verifrt"
)

func vhC14N() int {
	if vhThorough() {
		return 5
	}
	return 4
}

func vhFreshBook() *vhLedger {
	return &vhLedger{ab: vhNewBook()}
}

// vhSameLedger asserts that dst holds exactly src's live vertices, edges and content.
func vhSameLedger(src, dst *vhLedger, pfx string) {
	ss, ds := src.snapshot(), dst.snapshot()
	verifrt.Assert(len(ss.live) == len(ds.live), pfx+"/same-number-of-vertices")
	for _, sv := range ss.live {
		dv := ds.find(sv.id)
		verifrt.Assert(dv != nil, pfx+"/every-vertex-present")
		if dv == nil {
			continue
		}
		same := dv.v.Hash == sv.v.Hash && dv.v.LeftParentHash == sv.v.LeftParentHash && dv.v.RightParentHash == sv.v.RightParentHash &&
			dv.v.Weight == sv.v.Weight && dv.v.SignerPublicAddress == sv.v.SignerPublicAddress && dv.v.Transaction.Hash == sv.v.Transaction.Hash &&
			dv.v.Transaction.IssuerAddress == sv.v.Transaction.IssuerAddress && dv.v.Transaction.ReceiverAddress == sv.v.Transaction.ReceiverAddress &&
			dv.v.Transaction.Spice == sv.v.Transaction.Spice
		verifrt.Assert(same, pfx+"/vertex-content-identical")
		verifrt.Assert(len(dv.parents) == len(sv.parents), pfx+"/same-number-of-parent-links")
		for _, p := range sv.parents {
			has := false
			for _, q := range dv.parents {
				if p == q {
					has = true
				}
			}
			verifrt.Assert(has, pfx+"/every-parent-link-present")
		}
	}
	for th, vh := range ss.index {
		verifrt.Assert(ds.index[th] == vh, pfx+"/transaction-index-identical")
	}
	verifrt.Assert(len(ss.index) == len(ds.index), pfx+"/transaction-index-same-size")
	verifrt.Assert(dst.ab.genesisPublicAddress == src.ab.genesisPublicAddress, pfx+"/same-genesis-wallet")
}

func VH_C14_roundtrip() {
	verifrt.PermuteMaps(3)
	src := vhConcreteShape(vhC14N())
	dst := vhFreshBook()
	var cause error
	ch := src.ab.StreamDAG(context.Background())
	dst.ab.LoadDag(func(err error) { cause = err }, ch)
	verifrt.Assert(cause == nil, "C14/roundtrip/load-not-cancelled")
	verifrt.Assert(dst.ab.DagLoaded(), "C14/roundtrip/loaded-flag-set")
	vhSameLedger(src, dst, "C14/roundtrip")
	dst.vhCheck("C09", "synced")
	dst.vhCheck("C03", "synced")
	// the synced node answers balance queries as the peer does (single-tip ledgers: one possible answer)
	if len(src.tips()) == 1 {
		for _, q := range []string{"A", "B"} {
			b1, e1 := src.ab.CalculateBalance(context.Background(), q)
			b2, e2 := dst.ab.CalculateBalance(context.Background(), q)
			verifrt.Assert((e1 == nil) == (e2 == nil) && b1.Spice == b2.Spice, "C14/roundtrip/same-balance")
		}
	}
	// and from then on treats gossip as the peer does
	k := len(src.recs)
	tip := src.tips()[0]
	in := vhTransfer(k, "A", "C", spice.New(1, 0), nil, vhPeerAddr, uint64(60+k))
	in.LeftParentHash, in.RightParentHash = src.recs[tip].v.Hash, src.recs[tip].v.Hash
	in2 := *in
	e1 := src.ab.AddLeaf(context.Background(), in)
	e2 := dst.ab.AddLeaf(context.Background(), &in2)
	verifrt.Assert((e1 == nil) == (e2 == nil), "C14/roundtrip/same-gossip-verdict")
	verifrt.Reach("C14/roundtrip/end")
}

// VH_C14_symbolic_amounts: a smaller shape family with symbolic parties and amounts: balances agree.
func VH_C14_symbolic_amounts() {
	verifrt.PermuteMaps(2)
	src := vhChain(2)
	verifrt.Assume(src.recs[0].v.Transaction.IsSpiceTransfer()) // a genesis vertex with a non-zero supply
	dst := vhFreshBook()
	var cause error
	dst.ab.LoadDag(func(err error) { cause = err }, src.ab.StreamDAG(context.Background()))
	verifrt.Assert(cause == nil && dst.ab.DagLoaded(), "C14/symbolic/loaded")
	q := vhWallet("query")
	b1, e1 := src.ab.CalculateBalance(context.Background(), q)
	b2, e2 := dst.ab.CalculateBalance(context.Background(), q)
	verifrt.Assert((e1 == nil) == (e2 == nil), "C14/symbolic/same-balance-verdict")
	if e1 == nil && e2 == nil {
		verifrt.Assert(b1.Spice == b2.Spice, "C14/symbolic/same-balance")
	}
	verifrt.Reach("C14/symbolic/end")
}

// VH_C14_corrupt: every single corruption of an otherwise valid stream leaves the node not loaded.
func VH_C14_corrupt() {
	src := vhConcreteShape(3)
	dst := vhFreshBook()
	var stream []*Vertex
	for i := range src.recs {
		c := *src.recs[i].v
		stream = append(stream, &c)
	}
	kind := verifrt.Choose("corruption", 7)
	pos := verifrt.Choose("position", len(stream))
	switch kind {
	case 0: // a vertex repeated
		c := *stream[pos]
		stream = append(stream, &c)
	case 1: // a transaction carried by two different vertices
		c := *stream[pos]
		c.Hash[5] = 0xdd
		stream = append(stream, &c)
	case 2: // a vertex missing (its children lose a parent) - any but a tip
		if len(src.recs[pos].parents) == 0 || vhIn(src.tips(), pos) {
			pos = 0
		}
		stream = append(stream[:pos], stream[pos+1:]...)
	case 3: // a second vertex sealed by its own issuer
		stream[pos].SignerPublicAddress = stream[pos].Transaction.IssuerAddress
		if pos == 0 {
			stream[1].SignerPublicAddress = stream[1].Transaction.IssuerAddress
		}
	case 4: // an empty transaction
		stream[pos].Transaction.Spice = spice.Melange{}
		stream[pos].Transaction.Data = nil
	case 5: // a parent reference to a vertex that is not in the stream
		if pos == 0 {
			pos = 1
		}
		stream[pos].LeftParentHash[7] = 0xee
	case 6: // an empty stream
		stream = nil
	}
	ch := make(chan *Vertex, 16)
	for _, v := range stream {
		ch <- v
	}
	close(ch)
	var cause error
	dst.ab.LoadDag(func(err error) { cause = err }, ch)
	verifrt.Assert(!dst.ab.DagLoaded(), "C14/corrupt/not-loaded")
	verifrt.Assert(cause != nil, "C14/corrupt/failure-reported")
	verifrt.Reach("C14/corrupt/end")
}

// VH_C14_truncated_source: a peer that has truncated its DAG.
func VH_C14_truncated_source() {
	src := vhGenesisLedger("A", spice.New(100, 0))
	for i := 1; i <= 3; i++ {
		src.add(vhTransfer(i, "A", "B", spice.New(1, 0), nil, vhPeerAddr, uint64(50+i)), i-1)
	}
	src.vhSetDepth(1)
	if err := src.ab.truncate(context.Background()); err != nil {
		return
	}
	if len(src.vhLive()) == len(src.recs) {
		return // nothing was moved
	}
	dst := vhFreshBook()
	var cause error
	dst.ab.LoadDag(func(err error) { cause = err }, src.ab.StreamDAG(context.Background()))
	verifrt.Assert(cause == nil && dst.ab.DagLoaded(), "C14/truncated-source/can-be-synced-from")
	verifrt.Reach("C14/truncated-source/end")
}

// VH_C14_weight_window: after syncing, the loaded node must accept every declared weight its peer
// accepts (the minimal-weight window of validateLeaf). The peer's state is produced by real
// operations: a gossiped vertex declaring a large weight, then local proposals.
func VH_C14_weight_window() {
	src := vhGenesisLedger("A", spice.New(100, 0))
	ctx := context.Background()
	heavy := vhTransfer(1, "A", "B", spice.New(1, 0), nil, vhPeerAddr, 200)
	heavy.LeftParentHash, heavy.RightParentHash = src.recs[0].v.Hash, src.recs[0].v.Hash
	verifrt.Assert(src.ab.AddLeaf(ctx, heavy) == nil, "C14/weight/setup-gossip")
	prev := heavy
	for k := 2; k <= 3; k++ { // further gossip building on it (the gossip path moves the peer's weight window)
		v := vhTransfer(k, "A", "B", spice.New(1, 0), nil, vhPeerAddr, uint64(199+k))
		v.LeftParentHash, v.RightParentHash = prev.Hash, prev.Hash
		verifrt.Assert(src.ab.AddLeaf(ctx, v) == nil, "C14/weight/setup-gossip-chain")
		prev = v
	}
	dst := vhFreshBook()
	var cause error
	dst.ab.LoadDag(func(err error) { cause = err }, src.ab.StreamDAG(ctx))
	verifrt.Assert(cause == nil && dst.ab.DagLoaded(), "C14/weight/loaded")
	w := verifrt.NondetU64("declared-weight")
	onPeer, onLoaded := src.ab.isValidWeight(w), dst.ab.isValidWeight(w)
	verifrt.Assert(verifrt.Implies(onPeer, onLoaded), "C14/weight/loaded-node-accepts-what-the-peer-accepts")
	// the converse does not hold by construction (LoadDag restarts the window): pinned separately
	verifrt.Assert(verifrt.Implies(onLoaded, onPeer), "C14/weight/known/loaded-node-is-not-more-permissive")
	verifrt.Reach("C14/weight/end")
}
