//go:build verif

package accountant

// C13: vertices arriving before their parents are parked (bounded buffer, bounded retries) and
// admitted once the parents are present; any delivery order ends in the parents-first ledger.
// The 2-second ticker is replaced by the harness calling the real getNext + addLeafMemorized
// (exactly what runLeafSubscriber does with what buffer.run publishes).

import (
	"context"
	"time"

	"github.com/bartossh/Computantis/src/spice"
	"github.com/bartossh/Computantis/src/verifrt"
)

// vhRetryOnce performs one tick of the retry loop; false when the buffer is empty.
func (l *vhLedger) vhRetryOnce() bool {
	m := l.ab.repeater.getNext()
	if m.vrx == nil {
		return false
	}
	l.ab.addLeafMemorized(context.Background(), m)
	return true
}

var vhPerms3 = [][3]int{{0, 1, 2}, {0, 2, 1}, {1, 0, 2}, {1, 2, 0}, {2, 0, 1}, {2, 1, 0}}

// vhHistory3: three valid vertices above genesis G->A:100. shape 0: chain P<-C1<-C2;
// shape 1: C2 takes (P, C1); shape 2: P and C1 are siblings on G, C2 takes both.
var vhTimeOrder int

func vhHistory3(shape int) (l *vhLedger, vs []*Vertex, parents [][2]int) {
	vhTimeOrder = verifrt.Choose("creation-time-order", 3)
	l = vhGenesisLedger("A", spice.New(100, 0))
	g := l.recs[0].v
	mk := func(i int, iss, rcv string) *Vertex {
		v := vhTransfer(i, iss, rcv, spice.New(1, 0), nil, vhPeerAddr, uint64(50+i))
		// creation times are arbitrary (clock skew between nodes): equal, increasing or decreasing along the history
		sec := []int{0, i, 5 - i}[vhTimeOrder]
		v.CreatedAt = time.Unix(1700000000+int64(sec), 0)
		return v
	}
	p, c1, c2 := mk(1, "A", "B"), mk(2, "A", "C"), mk(3, "B", "C")
	vs = []*Vertex{p, c1, c2}
	switch shape {
	case 0:
		parents = [][2]int{{-1, -1}, {0, 0}, {1, 1}}
	case 1:
		parents = [][2]int{{-1, -1}, {0, 0}, {0, 1}}
	default:
		parents = [][2]int{{-1, -1}, {-1, -1}, {0, 1}}
	}
	for i, v := range vs {
		h := func(k int) [32]byte {
			if k < 0 {
				return g.Hash
			}
			return vs[k].Hash
		}
		v.LeftParentHash, v.RightParentHash = h(parents[i][0]), h(parents[i][1])
	}
	return
}

func (l *vhLedger) vhInDag(v *Vertex) bool {
	_, err := l.ab.dag.GetVertex(string(v.Hash[:]))
	return err == nil
}

// VH_C13_permutations: every delivery order of a valid 3-vertex history, 0..2 retry ticks after each
// delivery, then up to 40 more ticks: everything is admitted exactly once, with the declared edges.
func VH_C13_permutations() {
	shape := verifrt.Choose("shape", 3)
	l, vs, parents := vhHistory3(shape)
	perm := vhPerms3[verifrt.Choose("order", 6)]
	dup := verifrt.Choose("duplicate", 2) == 1
	for step, k := range perm {
		v := vs[k]
		missing := false
		for _, p := range parents[k] {
			if p >= 0 && !l.vhInDag(vs[p]) {
				missing = true
			}
		}
		err := l.ab.AddLeaf(context.Background(), v)
		if missing {
			verifrt.Assert(err == ErrParentDoesNotExists, "C13/permutations/missing-parent-is-reported")
			verifrt.Assert(!l.vhInDag(v), "C13/permutations/orphan-not-admitted-early")
		} else {
			verifrt.Assert(err == nil, "C13/permutations/complete-vertex-admitted")
		}
		if dup && step == 1 {
			// the same vertex delivered again: never admitted twice
			err2 := l.ab.AddLeaf(context.Background(), v)
			if !missing {
				verifrt.Assert(err2 == ErrLeafAlreadyExists, "C13/permutations/duplicate-refused")
			}
		}
		for r := verifrt.Choose("ticks"+verifrt.Itoa(step), 3); r > 0; r-- {
			l.vhRetryOnce()
		}
	}
	for i := 0; i < 40 && l.vhRetryOnce(); i++ {
	}
	verifrt.Assert(len(l.ab.repeater.members) == 0, "C13/permutations/buffer-drained")
	for _, v := range vs {
		verifrt.Assert(l.vhInDag(v), "C13/permutations/every-vertex-admitted")
	}
	verifrt.Assert(len(l.ab.dag.GetVertices()) == 4, "C13/permutations/nothing-admitted-twice")
	l.vhCheck("C09", "permutations")
	l.vhCheck("C03", "permutations")
	verifrt.Reach("C13/permutations/end")
}

// VH_C13_park: an orphan is parked once with its retry counter increased, the ledger is unchanged,
// and an orphan whose parent never arrives is retried a bounded number of times and then dropped.
func VH_C13_park() {
	l, vs, _ := vhHistory3(0)
	c1 := vs[1]
	before := len(l.ab.dag.GetVertices())
	err := l.ab.AddLeaf(context.Background(), c1)
	verifrt.Assert(err == ErrParentDoesNotExists, "C13/park/reported")
	verifrt.Assert(len(l.ab.dag.GetVertices()) == before, "C13/park/ledger-unchanged")
	ok, _ := l.ab.checkTrxInVertexExists(c1.Transaction.Hash[:])
	verifrt.Assert(!ok, "C13/park/no-index-entry")
	verifrt.Assert(len(l.ab.repeater.members) == 1 && l.ab.repeater.members[0].vrx == c1 && l.ab.repeater.members[0].repeated == 1, "C13/park/parked-once-with-counter")
	ticks := 0
	for ticks < 60 && l.vhRetryOnce() {
		ticks++
	}
	verifrt.Assert(len(l.ab.repeater.members) == 0, "C13/park/dangling-orphan-eventually-dropped")
	verifrt.Assert(ticks == maxRepeats+1, "C13/park/retried-exactly-the-bounded-number-of-times")
	verifrt.Assert(len(l.ab.dag.GetVertices()) == before, "C13/park/dropped-orphan-left-nothing")
	// and the buffer is still usable: another orphan can be parked (its lock was released)
	c2 := vs[2]
	verifrt.Assert(l.ab.AddLeaf(context.Background(), c2) == ErrParentDoesNotExists && len(l.ab.repeater.members) == 1, "C13/park/parking-works-after-a-drop")
	verifrt.Reach("C13/park/end")
}

// VH_C13_counter: insert's bounds for every counter value and buffer size.
func VH_C13_counter() {
	b := &buffer{pub: make(chan memory, 1), members: make([]memory, 0, 4)}
	n := verifrt.Choose("fill", 2)
	if n == 1 {
		b.members = make([]memory, maxArraySize)
	}
	rep := verifrt.NondetInt("repeated", 0, 100)
	v := &Vertex{}
	err := b.insert(memory{vrx: v, repeated: rep})
	if n == 1 {
		verifrt.Assert(err == ErrNotEnoughSpace && len(b.members) == maxArraySize, "C13/counter/full-buffer-rejects")
	} else {
		verifrt.Assert((err == nil) == (rep <= maxRepeats), "C13/counter/accepted-iff-within-retry-bound")
		if err == nil {
			verifrt.Assert(len(b.members) == 1 && b.members[0].repeated == rep+1 && b.members[0].vrx == v, "C13/counter/stored-with-incremented-counter")
		} else {
			verifrt.Assert(err == ErrVertexRepetitionExceeded && len(b.members) == 0, "C13/counter/rejected-stores-nothing")
		}
	}
	verifrt.Reach("C13/counter/end")
}

// VH_C13_retry_gates: the retry path re-runs every admission gate: a parked vertex that became a
// duplicate, or whose transaction was sealed meanwhile, is not admitted on retry.
func VH_C13_retry_gates() {
	l, vs, _ := vhHistory3(0)
	p, c1 := vs[0], vs[1]
	verifrt.Assert(l.ab.AddLeaf(context.Background(), c1) == ErrParentDoesNotExists, "C13/gates/parked")
	kind := verifrt.Choose("kind", 2)
	verifrt.Assert(l.ab.AddLeaf(context.Background(), p) == nil, "C13/gates/parent-admitted")
	if kind == 1 {
		// meanwhile the same transaction arrives sealed in another vertex
		other := vhTransfer(7, "A", "C", spice.New(1, 0), nil, "Q", 60)
		other.Transaction = c1.Transaction
		other.LeftParentHash, other.RightParentHash = p.Hash, p.Hash
		verifrt.Assert(l.ab.AddLeaf(context.Background(), other) == nil, "C13/gates/other-sealing-admitted")
	}
	for i := 0; i < 40 && l.vhRetryOnce(); i++ {
	}
	if kind == 1 {
		verifrt.Assert(!l.vhInDag(c1), "C13/gates/transaction-not-sealed-twice")
	} else {
		verifrt.Assert(l.vhInDag(c1), "C13/gates/admitted-on-retry")
	}
	l.vhCheck("C03", "gates")
	verifrt.Reach("C13/gates/end")
}

// VH_C13_late_invalid_parent: a vertex parked for a missing parent must not be admitted on top of that
// parent when the parent, arriving later, turns out to overdraw its issuer: the final ledger equals
// the parents-first ledger (where the overdrawing parent is pruned and the child rejected).
func VH_C13_late_invalid_parent() {
	l := vhGenesisLedger("A", spice.New(10, 0))
	g := l.recs[0].v
	amt := vhAmt("parent-amount") // symbolic: covered or overdrawing
	verifrt.Assume(!amt.Empty())
	r := vhTransfer(1, "A", "B", amt, nil, vhPeerAddr, 51)
	r.LeftParentHash, r.RightParentHash = g.Hash, g.Hash
	v := vhTransfer(2, "B", "C", spice.New(0, 1), nil, vhPeerAddr, 52)
	v.LeftParentHash, v.RightParentHash = r.Hash, r.Hash
	covered := verifrt.ZLe(vhZ(amt), vhZ(spice.New(10, 0)))
	verifrt.Assert(l.ab.AddLeaf(context.Background(), v) == ErrParentDoesNotExists, "C13/late-parent/child-parked")
	verifrt.Assert(l.ab.AddLeaf(context.Background(), r) == nil, "C13/late-parent/parent-accepted-as-tentative-tip")
	for i := 0; i < 40 && l.vhRetryOnce(); i++ {
	}
	if covered {
		verifrt.Assert(l.vhInDag(v) && l.vhInDag(r), "C13/late-parent/valid-parent-child-admitted")
	} else {
		verifrt.Assert(!l.vhInDag(v), "C13/late-parent/child-not-admitted-on-an-overdrawing-parent")
		verifrt.Assert(!l.vhInDag(r), "C13/late-parent/overdrawing-parent-pruned")
	}
	l.vhCheck("C03", "late-parent")
	l.vhCheck("C09", "late-parent")
	verifrt.Reach("C13/late-parent/end")
}
