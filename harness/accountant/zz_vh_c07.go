//go:build verif

package accountant

// C07: truncation is transparent. The real truncate (three ancestor walks, fundsMemMap, storage
// writes, vertex deletion) runs on every DAG shape in the bound with the cut depth d made small:
// under the symbolic executor newHashAtDepth(1000) is replaced by newHashAtDepth(d); natively the
// history is padded with 1000-d data-only filler vertices above every tip so that the production
// constant 1000 selects the same cut.

import (
	"context"
	"sync"

	"github.com/bartossh/Computantis/src/spice"
	"github.com/bartossh/Computantis/src/transaction"
	"github.com/bartossh/Computantis/src/verifrt"
)

func vhC07N() int {
	return 3
}

const vhNewHashAtDepthName = "github.com/bartossh/Computantis/src/accountant.newHashAtDepth"

// vhSetDepth installs the cut depth d.
func (l *vhLedger) vhSetDepth(d int) {
	verifrt.Redirect(vhNewHashAtDepthName, func(uint64) hashAtDepth { return hashAtDepth{depth: uint64(d)} })
	if !verifrt.Native() {
		return
	}
	// native replay: pad every tip with a chain of 1000-d data-only vertices
	for _, t := range l.tips() {
		parent := l.recs[t].v
		for k := 0; k < int(truncateDiff)-d; k++ {
			f := &Vertex{SignerPublicAddress: vhPeerAddr, CreatedAt: parent.CreatedAt, Signature: []byte{1},
				Transaction: transaction.Transaction{CreatedAt: parent.CreatedAt, IssuerAddress: "F", ReceiverAddress: "F", Subject: "f", Data: []byte{1}, IssuerSignature: []byte{1}},
				LeftParentHash: parent.Hash, RightParentHash: parent.Hash, Weight: parent.Weight + 1}
			f.Hash[0], f.Hash[1], f.Hash[2], f.Hash[3] = 0xF1, byte(t), byte(k>>8), byte(k)
			f.Transaction.Hash = f.Hash
			f.Transaction.Hash[0] = 0xF2
			if err := l.ab.dag.AddVertexByID(string(f.Hash[:]), f); err != nil {
				panic(err)
			}
			if err := l.ab.dag.AddEdge(string(parent.Hash[:]), string(f.Hash[:])); err != nil {
				panic(err)
			}
			parent = f
		}
	}
}

func vhIn(set []int, i int) bool {
	for _, x := range set {
		if x == i {
			return true
		}
	}
	return false
}

// vhLiveRecs: which harness records are live in the real DAG.
func (l *vhLedger) vhLive() []int {
	var out []int
	for i := range l.recs {
		if _, err := l.ab.dag.GetVertex(string(l.recs[i].v.Hash[:])); err == nil {
			out = append(out, i)
		}
	}
	return out
}

// vhConcreteShape: every DAG shape with n vertices after genesis, concrete parties and amounts
// (vertex i pays 1 from A to B, B to A alternating; vertex 2 is a self-transfer, vertex 1 carries data only).
func vhConcreteShape(n int) *vhLedger {
	l := vhGenesisLedger("A", spice.New(100, 0))
	for i := 1; i <= n; i++ {
		lp := verifrt.Choose("left"+verifrt.Itoa(i), i)
		rp := lp + verifrt.Choose("right"+verifrt.Itoa(i), i-lp)
		iss, rcv := "A", "B"
		if i%2 == 0 {
			iss, rcv = "B", "A"
		}
		if i == 2 {
			rcv = iss
		}
		amt, data := spice.New(1, uint64(i)), []byte(nil)
		if i == 1 {
			amt, data = spice.Melange{}, []byte{7} // a data-only (contract) vertex, deep enough to be moved
		}
		l.add(vhTransfer(i, iss, rcv, amt, data, vhPeerAddr, uint64(50+i)), lp, rp)
	}
	return l
}

func vhC07StructN() int {
	if vhThorough() {
		return 5
	}
	return 4
}

// VH_C07_structure: which vertices a truncation moves, for every shape and every cut depth: the
// moved set is exactly the ancestry of one live vertex, every moved vertex and transaction stays
// readable and indexed, nothing else leaves the DAG, a failed truncation moves nothing.
func VH_C07_structure() { vhTruncStructure("C07/structure", vhC07StructN()) }

// vhTruncStructure: shared by C07 and by the after-truncation harnesses of C03 / C09 (smaller n).
func vhTruncStructure(pfx string, n int) {
	verifrt.PermuteMaps(2)
	l := vhConcreteShape(n)
	d := 1 + verifrt.Choose("depth", n)
	l.vhSetDepth(d)
	err := l.ab.truncate(context.Background())
	live := l.vhLive()
	var moved []int
	for i := range l.recs {
		if !vhIn(live, i) {
			moved = append(moved, i)
		}
	}
	if err != nil {
		verifrt.Assert(len(moved) == 0, pfx+"/failed-truncate-moves-nothing")
		verifrt.Reach(pfx+"/err")
		return
	}
	cut := -1
	for _, c := range live {
		anc := l.ancestors(c)
		if len(anc) == len(moved) {
			all := true
			for _, m := range moved {
				if !vhIn(anc, m) {
					all = false
				}
			}
			if all && len(moved) > 0 {
				cut = c
			}
		}
	}
	verifrt.Assert(len(moved) == 0 || cut >= 0, pfx+"/moved-set-is-the-ancestry-of-a-live-vertex")
	for _, m := range moved {
		v := l.recs[m].v
		got, e := l.ab.readVertex(v.Hash[:])
		verifrt.Assert(e == nil, pfx+"/moved-vertex-readable")
		if e == nil {
			same := got.Hash == v.Hash && got.LeftParentHash == v.LeftParentHash && got.RightParentHash == v.RightParentHash &&
				got.Weight == v.Weight && got.SignerPublicAddress == v.SignerPublicAddress &&
				got.Transaction.Hash == v.Transaction.Hash && got.Transaction.IssuerAddress == v.Transaction.IssuerAddress &&
				got.Transaction.ReceiverAddress == v.Transaction.ReceiverAddress && got.Transaction.Spice == v.Transaction.Spice &&
				got.CreatedAt.Equal(v.CreatedAt) && got.Transaction.CreatedAt.Equal(v.Transaction.CreatedAt) &&
				string(got.Signature) == string(v.Signature) && string(got.Transaction.IssuerSignature) == string(v.Transaction.IssuerSignature)
			verifrt.Assert(same, pfx+"/moved-vertex-identical")
		}
		trx, e2 := l.ab.ReadTransactionByHash(context.Background(), v.Transaction.Hash)
		verifrt.Assert(e2 == nil && trx.Hash == v.Transaction.Hash && trx.Spice == v.Transaction.Spice, pfx+"/moved-transaction-readable")
		ok, e3 := l.ab.checkTrxInVertexExists(v.Transaction.Hash[:])
		verifrt.Assert(e3 == nil && ok, pfx+"/moved-transaction-still-indexed")
	}
	for _, i := range live {
		in, e := l.ab.checkVertexExistInStorage(l.recs[i].v.Hash[:])
		verifrt.Assert(e == nil && !in, pfx+"/live-vertex-not-checkpointed")
	}
	l.vhCheck("C03", "after-truncate")
	l.vhCheck("C09", "after-truncate")
	verifrt.Reach(pfx+"/ok")
}

var vhPatterns = [][2]string{{"A", "B"}, {"B", "A"}, {"A", "A"}, {"B", "C"}}

// vhFundsLedger: genesis -> A, then a chain (or, with diamond, vertex 3 taking 1 and 2 as parents and
// 2 hanging off genesis) whose vertices 1 and 2 use enumerated party patterns (incl. a self-transfer)
// and symbolic amounts; vertex 3 (the tip) is a symbolic spice transfer by A or B.
var vhFundsLight bool // chain shape only (the after-truncation harnesses of other properties)

func vhFundsLedger() *vhLedger {
	l := vhGenesisLedger("A", vhAmt("supply"))
	diamond := !vhFundsLight && verifrt.Choose("diamond", 2) == 1
	for i := 1; i <= 3; i++ {
		p := vhPatterns[verifrt.Choose("pattern"+verifrt.Itoa(i), len(vhPatterns))]
		v := vhTransfer(i, p[0], p[1], vhAmt("amt"+verifrt.Itoa(i)), nil, vhPeerAddr, uint64(50+i))
		verifrt.Assume(v.Transaction.IsSpiceTransfer())
		switch {
		case diamond && i == 2:
			l.add(v, 0)
		case diamond && i == 3:
			l.add(v, 1, 2)
		default:
			l.add(v, i-1)
		}
	}
	return l
}

// VH_C07_funds: checkpoint = previous checkpoint + net flow of exactly the moved set; balances and
// the validation verdict of the tip are the same before and after.
func VH_C07_funds() { vhTruncFunds("C07/funds", false) }

// vhTruncFunds: shared by C07 and by the after-truncation harnesses of C01 / C02 / C06 (light: chains only).
func vhTruncFunds(pfx string, light bool) {
	verifrt.PermuteMaps(2)
	vhFundsLight = light
	l := vhFundsLedger()
	cp := l.vhCheckpoint()
	d := 1 + verifrt.Choose("depth", 2)
	q := []string{"A", "B", "C"}[verifrt.Choose("query", 3)]
	t := l.tips()[0]
	// representation invariant of reachable ledgers (C01): every confirmed vertex is covered in its own history
	for i := 1; i < len(l.recs); i++ {
		if i != t {
			cov, _ := l.vhCovered(cp, i)
			verifrt.Assume(cov)
		}
	}
	set := append(l.ancestors(t), t)
	in, out := l.flows(q, set)
	tot := verifrt.ZAdd(in, vhCpZ(cp, q))
	cpBefore := vhCpZ(cp, q)
	vBefore := l.ab.validateLeaf(context.Background(), l.recs[t].v)
	l.vhSetDepth(d)
	if err := l.ab.truncate(context.Background()); err != nil {
		verifrt.Assert(false, pfx+"/truncate-succeeds")
		return
	}
	live := l.vhLive()
	var moved []int
	for i := range l.recs {
		if !vhIn(live, i) {
			moved = append(moved, i)
		}
	}
	mIn, mOut := l.flows(q, moved)
	want := verifrt.ZSub(verifrt.ZAdd(cpBefore, mIn), mOut)
	got, e := l.ab.readAddressFundsFromStorage(q)
	gotZ := vhZero()
	if e == nil {
		gotZ = vhZ(got)
	}
	if verifrt.ZGe(want, vhZero()) {
		verifrt.Assert(verifrt.ZEq(gotZ, want), pfx+"/checkpoint-is-previous-plus-net-flow-of-moved-set")
	}
	bal, berr := l.ab.CalculateBalance(context.Background(), q)
	if verifrt.Native() {
		verifrt.Trace("moved=" + verifrt.Itoa(len(moved)) + " live=" + verifrt.Itoa(len(live)) + " cp=" + got.String() + " bal=" + bal.Spice.String())
		if berr != nil {
			verifrt.Trace("balance error: " + berr.Error())
		}
	}
	if berr == nil {
		verifrt.Assert(verifrt.ZEq(vhZ(bal.Spice), verifrt.ZSub(tot, out)), pfx+"/balance-preserved")
	} else {
		verifrt.Assert(verifrt.ZLt(tot, out), pfx+"/balance-error-only-if-negative-before")
	}
	vAfter := l.ab.validateLeaf(context.Background(), l.recs[t].v)
	verifrt.Assert((vBefore == nil) == (vAfter == nil), pfx+"/same-validation-verdict")
	verifrt.Reach(pfx+"/ok")
}

// VH_C07_resubmit: after a truncation, moved vertices and transactions are still refused.
func VH_C07_resubmit() { vhTruncResubmit("C07/resubmit") }

func vhTruncResubmit(pfx string) {
	l := vhChain(3)
	verifrt.Assume(l.recs[0].v.Transaction.IsSpiceTransfer())
	l.vhSetDepth(2) // chain G,1,2,3: walk from 3 visits 2,1,G: cut = 1, moved = {G}; with d=1 nothing moves
	if err := l.ab.truncate(context.Background()); err != nil {
		panic("vh: truncate: " + err.Error())
	}
	_, e := l.ab.dag.GetVertex(string(l.recs[0].v.Hash[:]))
	verifrt.Assert(e != nil, pfx+"/genesis-moved")
	kind := verifrt.Choose("kind", 3)
	switch kind {
	case 0: // the moved vertex again
		c := *l.recs[0].v
		c.SignerPublicAddress = vhPeerAddr
		c.Transaction.IssuerAddress = "A" // not self-sealed, so the entry guards are passed
		err := l.ab.AddLeaf(context.Background(), &c)
		if err != nil && verifrt.Native() {
			verifrt.Trace("addleaf moved vertex: " + err.Error())
		}
		verifrt.Assert(err == ErrLeafAlreadyExists, pfx+"/moved-vertex-refused")
	case 1: // the moved transaction in a new vertex
		in := vhTransfer(8, "A", "B", spice.New(1, 0), nil, vhPeerAddr, 60)
		in.Transaction.Hash = l.recs[0].v.Transaction.Hash
		in.LeftParentHash, in.RightParentHash = l.recs[3].v.Hash, l.recs[3].v.Hash
		err := l.ab.AddLeaf(context.Background(), in)
		verifrt.Assert(err == ErrTrxInVertexAlreadyExists, pfx+"/moved-transaction-refused-by-gossip")
	case 2:
		trx := l.recs[0].v.Transaction
		trx.IssuerAddress = "A"
		_, err := l.ab.CreateLeaf(context.Background(), &trx)
		if err != nil && verifrt.Native() {
			verifrt.Trace("createleaf moved trx: " + err.Error())
		}
		verifrt.Assert(err == ErrTrxInVertexAlreadyExists, pfx+"/moved-transaction-refused-by-proposal")
	}
	l.vhCheck("C03", "after-truncate")
	verifrt.Reach(pfx+"/end")
}


// VH_C07_concurrent_reader: balances read WHILE a truncation runs are the balances before (= after) it: the
// checkpoint write and the removal of the moved vertices are one step for every other caller. All schedules
// within one preemption (bounded search in quick).
func VH_C07_concurrent_reader() {
	l := vhGenesisLedger("A", spice.New(100, 0))
	l.add(vhTransfer(1, "A", "B", spice.New(10, 0), nil, vhPeerAddr, 51), 0)
	l.add(vhTransfer(2, "B", "C", spice.New(3, 0), nil, vhPeerAddr, 52), 1)
	l.add(vhTransfer(3, "A", "C", spice.New(5, 0), nil, vhPeerAddr, 53), 2)
	l.add(vhTransfer(4, "C", "A", spice.New(1, 0), nil, vhPeerAddr, 54), 3)
	q := []string{"A", "B", "C"}[verifrt.Choose("query", 3)]
	before, err := l.ab.CalculateBalance(context.Background(), q)
	verifrt.Assert(err == nil, "C07/concurrent-reader/setup")
	l.vhSetDepth(1 + verifrt.Choose("depth", 2))
	verifrt.ExploreSchedules(1)
	if !vhThorough() {
		verifrt.SearchBudget(4000)
	}
	var wg sync.WaitGroup
	var during Balance
	var derr, terr error
	wg.Add(2)
	go func() {
		defer wg.Done()
		terr = l.ab.truncate(context.Background())
	}()
	go func() {
		defer wg.Done()
		during, derr = l.ab.CalculateBalance(context.Background(), q)
	}()
	wg.Wait()
	verifrt.Assert(terr == nil, "C07/concurrent-reader/truncate-succeeds")
	verifrt.Assert(derr == nil && during.Spice == before.Spice, "C07/concurrent-reader/balance-read-during-truncation-is-the-balance")
	after, aerr := l.ab.CalculateBalance(context.Background(), q)
	verifrt.Assert(aerr == nil && after.Spice == before.Spice, "C07/concurrent-reader/balance-after-truncation-is-the-balance")
	verifrt.Reach("C07/concurrent-reader/end")
}
