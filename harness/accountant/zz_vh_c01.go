//go:build verif

package accountant

// C01: no confirmed transfer overdraws its issuer within the history it builds on.
// L1: the real validateLeaf (real ancestor walker goroutine, real pourFunds / Supply / Drain,
//     checkpoint read through storage.go) agrees with the unbounded-integer predicate
//     cp(issuer) + inflow(anc ∪ {t}) >= outflow(anc ∪ {t}) for every DAG shape in the bound.
// L2: the edge-adding paths (AddLeaf, CreateLeaf) only build on tips that pass the predicate and
//     drop failing tips together with their index entry.

import (
	"context"

	"github.com/bartossh/Computantis/src/spice"
	"github.com/bartossh/Computantis/src/transaction"
	"github.com/bartossh/Computantis/src/verifrt"
)

func vhC01N() int {
	if vhThorough() {
		return 4
	}
	return 3
}

// vhCovered: Z predicate for tip index t of ledger l.
func (l *vhLedger) vhCovered(cp map[string]spice.Melange, t int) (covered, overflow bool) {
	iss := l.recs[t].v.Transaction.IssuerAddress
	if t == 0 {
		return true, false // the genesis vertex is exempt
	}
	set := append(l.ancestors(t), t)
	in, out := l.flows(iss, set)
	in = verifrt.ZAdd(in, vhCpZ(cp, iss))
	return verifrt.ZGe(in, out), verifrt.Or(verifrt.ZGe(in, vhLimit()), verifrt.ZGe(out, vhLimit()))
}

func VH_C01_validate_spec() {
	verifrt.PermuteMaps(2)
	l := vhShape(vhC01N())
	cp := l.vhCheckpoint()
	tips := l.tips()
	t := tips[verifrt.Choose("tip", len(tips))]
	covered, overflow := l.vhCovered(cp, t)
	isSpice := l.recs[t].v.Transaction.IsSpiceTransfer()
	err := l.ab.validateLeaf(context.Background(), l.recs[t].v)
	if err == nil {
		verifrt.Assert(verifrt.Or(covered, !isSpice), "C01/validate/accepted-tip-is-covered")
		verifrt.Reach("C01/validate/ok")
		return
	}
	verifrt.Assert(verifrt.Or(verifrt.Not(covered), overflow), "C01/validate/covered-tip-is-accepted")
	verifrt.Reach("C01/validate/rejected")
}

// vhTrusted: a tip sealed by a trusted node bypasses accounting only when exactly that sealer
// address is in the trusted store.
func VH_C01_trusted() {
	l := vhChain(2)
	cp := map[string]spice.Melange{}
	t := l.tips()[0]
	sealer := verifrt.NondetString("sealer", 1, 1)
	trusted := verifrt.NondetString("trusted", 1, 1)
	l.recs[t].v.SignerPublicAddress = sealer
	if err := l.ab.AddTrustedNode(trusted); err != nil {
		panic(err)
	}
	covered, _ := l.vhCovered(cp, t)
	isSpice := l.recs[t].v.Transaction.IsSpiceTransfer()
	err := l.ab.validateLeaf(context.Background(), l.recs[t].v)
	// trust is withdrawn again: from then on the sealer's vertices are accounted like anybody's
	if e := l.ab.RemoveTrustedNode(trusted); e != nil {
		panic(e)
	}
	if l.ab.validateLeaf(context.Background(), l.recs[t].v) == nil {
		verifrt.Assert(verifrt.Or(covered, !isSpice), "C01/trusted/no-bypass-after-trust-is-withdrawn")
	}
	if err == nil {
		verifrt.Assert(verifrt.Or(verifrt.Or(covered, !isSpice), sealer == trusted), "C01/trusted/bypass-only-for-listed-sealer")
		verifrt.Reach("C01/trusted/ok")
		return
	}
	verifrt.Assert(sealer != trusted, "C01/trusted/listed-sealer-accepted")
	verifrt.Reach("C01/trusted/rejected")
}

// VH_C01_step_addleaf: from every ledger of the family, a gossiped vertex naming existing parents:
// every parent that was a tip and gains its first child must satisfy the predicate; a failing tip is
// removed from the DAG and from the index; on rejection nothing else changes.
func VH_C01_step_addleaf() {
	verifrt.PermuteMaps(2)
	n := vhC01N() - 1
	l := vhShape(n)
	cp := l.vhCheckpoint()
	tipsBefore := l.tips()
	k := len(l.recs)
	lp := verifrt.Choose("inLeft", k)
	rp := lp + verifrt.Choose("inRight", k-lp)
	in := vhTransfer(k, vhWallet("issIn"), vhWallet("rcvIn"), vhAmt("amtIn"), nil, vhPeerAddr, uint64(50+k))
	in.LeftParentHash = l.recs[lp].v.Hash
	in.RightParentHash = l.recs[rp].v.Hash
	isTip := func(i int) bool {
		for _, t := range tipsBefore {
			if t == i {
				return true
			}
		}
		return false
	}
	covL, _ := l.vhCovered(cp, lp)
	covR, _ := l.vhCovered(cp, rp)
	err := l.ab.AddLeaf(vhStepCtx(), in)
	spL, spR := l.recs[lp].v.Transaction.IsSpiceTransfer(), l.recs[rp].v.Transaction.IsSpiceTransfer()
	if err == nil {
		if isTip(lp) {
			verifrt.Assert(verifrt.Or(covL, !spL), "C01/addleaf/left-parent-covered")
		}
		if isTip(rp) {
			verifrt.Assert(verifrt.Or(covR, !spR), "C01/addleaf/right-parent-covered")
		}
		_, e := l.ab.dag.GetVertex(string(in.Hash[:]))
		verifrt.Assert(e == nil, "C01/addleaf/admitted-vertex-present")
		verifrt.Reach("C01/addleaf/ok")
		return
	}
	// rejected: the incoming vertex and its index entry must be absent
	_, e := l.ab.dag.GetVertex(string(in.Hash[:]))
	verifrt.Assert(e != nil, "C01/addleaf/rejected-vertex-absent")
	ok, _ := l.ab.checkTrxInVertexExists(in.Transaction.Hash[:])
	verifrt.Assert(!ok, "C01/addleaf/rejected-index-absent")
	// a tip that failed validation is gone with its index entry; every other vertex stays
	for _, p := range []int{lp, rp} {
		_, pe := l.ab.dag.GetVertex(string(l.recs[p].v.Hash[:]))
		idx, _ := l.ab.checkTrxInVertexExists(l.recs[p].v.Transaction.Hash[:])
		verifrt.Assert((pe == nil) == idx, "C01/addleaf/index-follows-vertex")
	}
	verifrt.Reach("C01/addleaf/rejected")
}

// VH_C01_step_createleaf: a local proposal builds only on tips that pass the predicate; failing
// tips are deleted with their index entries.
func VH_C01_step_createleaf() {
	verifrt.PermuteMaps(2)
	n := vhC01N() - 1
	l := vhShape(n)
	cp := l.vhCheckpoint()
	tips := l.tips()
	cov := make([]bool, len(l.recs))
	ovf := make([]bool, len(l.recs))
	for _, t := range tips {
		cov[t], ovf[t] = l.vhCovered(cp, t)
		cov[t] = verifrt.Or(cov[t], !l.recs[t].v.Transaction.IsSpiceTransfer())
	}
	k := len(l.recs)
	trx := transaction.Transaction{
		CreatedAt: l.recs[0].v.CreatedAt, IssuerAddress: vhWallet("issNew"), ReceiverAddress: vhWallet("rcvNew"),
		Subject: "s", IssuerSignature: []byte{1}, Hash: vhTrxHash(k), Spice: vhAmt("amtNew"),
	}
	tip, err := l.ab.CreateLeaf(vhStepCtx(), &trx)
	for _, t := range tips {
		_, pe := l.ab.dag.GetVertex(string(l.recs[t].v.Hash[:]))
		idx, _ := l.ab.checkTrxInVertexExists(l.recs[t].v.Transaction.Hash[:])
		verifrt.Assert((pe == nil) == idx, "C01/createleaf/index-follows-vertex")
		if pe != nil && vhCtxLive {
			// (with a cancelled context the code also drops tips whose validation was merely interrupted:
			// an observation, not a violation of C01 - nothing uncovered gets confirmed)
			verifrt.Assert(verifrt.Or(!cov[t], ovf[t]), "C01/createleaf/only-uncovered-tips-are-dropped")
		}
	}
	if err == nil {
		for _, t := range tips {
			h := l.recs[t].v.Hash
			if tip.LeftParentHash == h || tip.RightParentHash == h {
				verifrt.Assert(cov[t], "C01/createleaf/parent-covered")
			}
		}
		verifrt.Reach("C01/createleaf/ok")
		return
	}
	verifrt.Reach("C01/createleaf/rejected")
}

// VH_C01_overflow: full-width amounts on a short chain: an accumulator overflow is an error, never a pass.
func VH_C01_overflow() {
	l := vhGenesisLedger("A", vhAmount("supply"))
	for i := 1; i <= 2; i++ {
		v := vhTransfer(i, "A", vhWallet("rcv"+verifrt.Itoa(i)), vhAmount("amt"+verifrt.Itoa(i)), nil, vhPeerAddr, uint64(50+i))
		l.add(v, i-1)
	}
	cp := map[string]spice.Melange{"A": vhAmount("cpA")}
	if err := l.ab.saveFundsToStorage("A", cp["A"]); err != nil {
		panic(err)
	}
	covered, _ := l.vhCovered(cp, 2)
	isSpice := l.recs[2].v.Transaction.IsSpiceTransfer()
	err := l.ab.validateLeaf(context.Background(), l.recs[2].v)
	if err == nil {
		verifrt.Assert(verifrt.Or(covered, !isSpice), "C01/overflow/accepted-tip-is-covered")
		verifrt.Reach("C01/overflow/ok")
		return
	}
	verifrt.Reach("C01/overflow/rejected")
}
