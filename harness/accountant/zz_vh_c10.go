//go:build verif

package accountant

// C10 (sync race): proposals and gossip issued by the genesis wallet that arrive WHILE the node is
// still loading the DAG from a peer must not slip past the genesis-wallet guard (which compares with
// the genesis address that is only known once loading has finished).

import (
	"context"
	"sync"

	"github.com/bartossh/Computantis/src/spice"
	"github.com/bartossh/Computantis/src/verifrt"
)

func VH_C10_load_vs_admission() {
	src := vhGenesisLedger("A", spice.New(100, 0))
	src.add(vhTransfer(1, "A", "B", spice.New(1, 0), nil, vhPeerAddr, 51), 0)
	dst := vhFreshBook()
	verifrt.ExploreSchedules(1)
	ch := make(chan *Vertex, 4)
	var wg sync.WaitGroup
	var cause, eGossip, eProposal error
	wg.Add(3)
	go func() {
		defer wg.Done()
		dst.ab.LoadDag(func(err error) { cause = err }, ch)
	}()
	gossipKind := verifrt.Choose("gossiped", 3)
	go func() { // a gossiped vertex that breaks an identity rule (data-only, so funds never evict it)
		defer wg.Done()
		var in *Vertex
		switch gossipKind {
		case 0: // issued by the genesis wallet
			in = vhTransfer(7, vhGenesisAddr, "B", spice.Melange{}, []byte{1}, vhPeerAddr, 52)
		case 1: // sealed by its own issuer
			in = vhTransfer(7, vhPeerAddr, "B", spice.Melange{}, []byte{1}, vhPeerAddr, 52)
		default: // empty transaction
			in = vhTransfer(7, "A", "B", spice.Melange{}, nil, vhPeerAddr, 52)
		}
		in.LeftParentHash, in.RightParentHash = src.recs[1].v.Hash, src.recs[1].v.Hash
		eGossip = dst.ab.AddLeaf(context.Background(), in)
	}()
	go func() { // a local proposal issued by the genesis wallet
		defer wg.Done()
		trx := vhTrxFor(8, vhGenesisAddr, "B", spice.Melange{})
		trx.Data = []byte{2}
		_, eProposal = dst.ab.CreateLeaf(context.Background(), &trx)
	}()
	for i := range src.recs {
		c := *src.recs[i].v
		ch <- &c
	}
	close(ch)
	wg.Wait()
	verifrt.Assert(cause == nil && dst.ab.DagLoaded(), "C10/load-race/loaded")
	verifrt.Assert(eGossip != nil, "C10/load-race/rule-breaking-gossip-refused")
	verifrt.Assert(eProposal != nil, "C10/load-race/genesis-issued-proposal-refused")
	dst.vhCheck("C10", "load-race")
	for i := 0; i < 3 && dst.vhRetryOnce(); i++ { // whatever was parked meanwhile is retried by the orphan buffer
	}
	dst.vhCheck("C10", "load-race-after-retries")
	verifrt.Reach("C10/load-race/end")
}
