//go:build verif

package accountant

// C04-H2: a vertex honestly signed (issuer wallet, optional receiver countersignature, sealing node)
// and then altered in ONE signed field is rejected by the real Vertex.verify with the real
// wallet.Helper (address decoding, digest check, Ed25519) under idealised cryptography (DESIGN §2.7:
// collision-free SHA-256, unforgeable Ed25519 for the three honest keys, bijective base58). Two
// multi-field alterations known to pass are pinned separately (field-boundary shift, stripped
// receiver signature).

import (
	"time"

	"github.com/bartossh/Computantis/src/spice"
	"github.com/bartossh/Computantis/src/transaction"
	"github.com/bartossh/Computantis/src/verifrt"
	"github.com/bartossh/Computantis/src/wallet"
)

func vhDiffBytes(name string, old []byte) []byte {
	n := verifrt.NondetBytes(name, len(old), len(old))
	verifrt.Assume(string(n) != string(old))
	return n
}

func vhDiffHash(name string, old [32]byte) [32]byte {
	n := verifrt.NondetHash(name)
	verifrt.Assume(n != old)
	return n
}

func VH_C04_mutation_rejected() {
	issuer, _ := wallet.New()
	receiver, _ := wallet.New()
	node, _ := wallet.New()
	field := verifrt.Choose("field", 21)
	if (field == 8 || field == 9) && verifrt.Choose("self-addressed", 2) == 1 {
		receiver = issuer // a transaction the issuer sends to its own wallet
	}
	verifrt.HonestKey(issuer.Public)
	verifrt.HonestKey(receiver.Public)
	verifrt.HonestKey(node.Public)
	ver := wallet.NewVerifier()
	trx := transaction.Transaction{
		CreatedAt: vhInstant("created"), IssuerAddress: issuer.Address(), ReceiverAddress: receiver.Address(),
		Subject: verifrt.NondetString("subject", 2, 2), Data: verifrt.NondetBytes("data", 1, 1),
		Spice: spice.Melange{Currency: verifrt.NondetU64("cur"), SupplementaryCurrency: verifrt.NondetU64("sup")},
	}
	trx.Hash, trx.IssuerSignature = issuer.Sign(trx.GetMessage())
	countersigned := verifrt.Choose("countersigned", 2) == 1
	if countersigned {
		_, trx.ReceiverSignature = receiver.Sign(trx.GetMessage())
	}
	v, err := NewVertex(trx, verifrt.NondetHash("left"), verifrt.NondetHash("right"), verifrt.NondetU64("weight"), &node)
	verifrt.Assert(err == nil, "C04/mutation/sealed")
	// the sealing time is any instant (NewVertex takes the clock); re-sealed by the real sign
	v.CreatedAt = vhInstant("vcreated")
	v.sign(&node)
	verifrt.Assert(v.verify(ver) == nil, "C04/mutation/genuine-vertex-verifies")
	m := v
	name := ""
	switch field {
	case 0:
		name, m.Transaction.Subject = "subject", string(vhDiffBytes("subject'", []byte(trx.Subject)))
	case 1:
		name, m.Transaction.Data = "data", vhDiffBytes("data'", trx.Data)
	case 2:
		name, m.Transaction.IssuerAddress = "issuer-address", string(vhDiffBytes("issuer'", []byte(trx.IssuerAddress)))
	case 3:
		name, m.Transaction.ReceiverAddress = "receiver-address", string(vhDiffBytes("receiver'", []byte(trx.ReceiverAddress)))
	case 4:
		t := vhInstant("created'")
		verifrt.Assume(t.UnixNano() != trx.CreatedAt.UnixNano())
		name, m.Transaction.CreatedAt = "trx-created-at", t
	case 5:
		n := verifrt.NondetU64("cur'")
		verifrt.Assume(n != trx.Spice.Currency)
		name, m.Transaction.Spice.Currency = "currency", n
	case 6:
		n := verifrt.NondetU64("sup'")
		verifrt.Assume(n != trx.Spice.SupplementaryCurrency)
		name, m.Transaction.Spice.SupplementaryCurrency = "supplementary-currency", n
	case 7:
		name, m.Transaction.Hash = "trx-hash", vhDiffHash("thash'", trx.Hash)
	case 8:
		name, m.Transaction.IssuerSignature = "issuer-signature", vhDiffBytes("isig'", trx.IssuerSignature)
	case 9:
		if !countersigned {
			return
		}
		name, m.Transaction.ReceiverSignature = "receiver-signature", vhDiffBytes("rsig'", trx.ReceiverSignature)
	case 10:
		name, m.LeftParentHash = "left-parent", vhDiffHash("left'", v.LeftParentHash)
	case 11:
		name, m.RightParentHash = "right-parent", vhDiffHash("right'", v.RightParentHash)
	case 12:
		n := verifrt.NondetU64("weight'")
		verifrt.Assume(n != v.Weight)
		name, m.Weight = "weight", n
	case 13:
		t := vhInstant("vcreated'")
		verifrt.Assume(t.UnixNano() != v.CreatedAt.UnixNano())
		name, m.CreatedAt = "vertex-created-at", t
	case 14:
		name, m.Hash = "vertex-hash", vhDiffHash("vhash'", v.Hash)
	case 15:
		name, m.Signature = "vertex-signature", vhDiffBytes("vsig'", v.Signature)
	case 16:
		name, m.SignerPublicAddress = "sealer-address", string(vhDiffBytes("sealer'", []byte(v.SignerPublicAddress)))
	case 17: // an unsigned transaction gets a forged receiver signature attached
		if countersigned {
			return
		}
		name, m.Transaction.ReceiverSignature = "forged-countersignature", verifrt.NondetBytes("rsig'", 64, 64)
	case 18: // a genuine signature with 1..2 trailing bytes
		name, m.Signature = "vertex-signature-extended", append(append([]byte{}, v.Signature...), verifrt.NondetBytes("vsig+", 1, 2)...)
	case 19:
		name, m.Transaction.IssuerSignature = "issuer-signature-extended", append(append([]byte{}, trx.IssuerSignature...), verifrt.NondetBytes("isig+", 1, 2)...)
	case 20:
		if !countersigned {
			return
		}
		name, m.Transaction.ReceiverSignature = "receiver-signature-extended", append(append([]byte{}, trx.ReceiverSignature...), verifrt.NondetBytes("rsig+", 1, 2)...)
	}
	verifrt.Assert(m.verify(ver) != nil, "C04/mutation/"+name+"-altered-is-rejected")
	verifrt.Reach("C04/mutation/end")
}

// vhInstant: any instant with nanosecond resolution whose UnixNano fits in 64 bits (seconds and nanoseconds
// given separately so that no division by 10^9 is needed to normalise it).
func vhInstant(name string) time.Time {
	sec, nsec := verifrt.NondetI64(name+".sec"), verifrt.NondetI64(name+".nsec")
	verifrt.Assume(sec > -9_000_000_000 && sec < 9_000_000_000 && nsec >= 0 && nsec < 1_000_000_000)
	return time.Unix(sec, nsec)
}

// VH_C04_known_multi_field: the two alterations that the signed encodings do not detect.
func VH_C04_known_multi_field() {
	issuer, _ := wallet.New()
	receiver, _ := wallet.New()
	node, _ := wallet.New()
	verifrt.HonestKey(issuer.Public)
	verifrt.HonestKey(receiver.Public)
	verifrt.HonestKey(node.Public)
	ver := wallet.NewVerifier()
	trx := transaction.Transaction{
		CreatedAt: time.Unix(1700000000, 0), IssuerAddress: issuer.Address(), ReceiverAddress: receiver.Address(),
		Subject: verifrt.NondetString("subject", 2, 2), Data: verifrt.NondetBytes("data", 1, 1), Spice: spice.New(1, 2),
	}
	trx.Hash, trx.IssuerSignature = issuer.Sign(trx.GetMessage())
	_, trx.ReceiverSignature = receiver.Sign(trx.GetMessage())
	var l, r [32]byte
	v, _ := NewVertex(trx, l, r, 7, &node)
	m := v
	if verifrt.Choose("kind", 2) == 0 {
		// one byte moved from the end of Subject to the start of Data
		m.Transaction.Subject = trx.Subject[:1]
		m.Transaction.Data = append([]byte{trx.Subject[1]}, trx.Data...)
		verifrt.Assert(m.verify(ver) != nil, "C04/known/field-boundary-shift-is-rejected")
	} else {
		m.Transaction.ReceiverSignature = nil
		verifrt.Assert(m.verify(ver) != nil, "C04/known/stripped-receiver-signature-is-rejected")
	}
	verifrt.Reach("C04/known/end")
}
