//go:build verif

package accountant

// Read-only ledger snapshot and the structural invariants shared by C03, C09 and C10.
// Everything is re-derived from the real book: the real heimdalr/dag graph, the real
// transaction index and vertex storage (badger; model under the engine, in-memory natively).

import (
	"context"

	"github.com/dgraph-io/badger/v4"

	"github.com/bartossh/Computantis/src/spice"
	"github.com/bartossh/Computantis/src/transaction"
	"github.com/bartossh/Computantis/src/verifrt"
)

type vhSnapVertex struct {
	id      string
	v       *Vertex
	parents []string // real edges into the vertex
}

type vhSnapshot struct {
	live  []vhSnapVertex
	index map[string]string // trx hash -> vertex hash
}

func vhDBEntries(db *badger.DB) map[string]string {
	out := map[string]string{}
	err := db.View(func(txn *badger.Txn) error {
		it := txn.NewIterator(badger.IteratorOptions{PrefetchSize: 10, PrefetchValues: true})
		defer it.Close()
		for it.Seek(nil); it.ValidForPrefix(nil); it.Next() {
			item := it.Item()
			k := string(item.Key())
			item.Value(func(v []byte) error {
				out[k] = string(v)
				return nil
			})
		}
		return nil
	})
	if err != nil {
		panic("vh: db scan: " + err.Error())
	}
	return out
}

func (l *vhLedger) snapshot() vhSnapshot {
	var s vhSnapshot
	for id, item := range l.ab.dag.GetVertices() {
		v, _ := item.(*Vertex)
		sv := vhSnapVertex{id: id, v: v}
		ps, err := l.ab.dag.GetParents(id)
		if err != nil {
			panic("vh: parents: " + err.Error())
		}
		for pid := range ps {
			sv.parents = append(sv.parents, pid)
		}
		s.live = append(s.live, sv)
	}
	s.index = vhDBEntries(l.ab.trxsToVertxDB)
	return s
}

func (s *vhSnapshot) find(id string) *vhSnapVertex {
	for i := range s.live {
		if s.live[i].id == id {
			return &s.live[i]
		}
	}
	return nil
}

var vhZeroHash [32]byte

// vhCheck asserts the invariants selected by prop ("C03", "C09", "C10") on the current book.
func (l *vhLedger) vhCheck(prop, where string) {
	s := l.snapshot()
	ab := l.ab
	id := func(name string) string { return prop + "/" + where + "/" + name }
	c03, c09, c10 := prop == "C03", prop == "C09", prop == "C10"
	trxHolders := map[string]int{}
	for i := range s.live {
		sv := &s.live[i]
		v := sv.v
		if v == nil {
			verifrt.Assert(false, id("vertex-not-nil"))
			continue
		}
		isGenesis := v.LeftParentHash == vhZeroHash && v.RightParentHash == vhZeroHash
		if c09 {
			verifrt.Assert(sv.id == string(v.Hash[:]), id("stored-under-own-hash"))
			// edges into v = declared parents that are live, and nothing else
			for _, ph := range [][32]byte{v.LeftParentHash, v.RightParentHash} {
				if isGenesis {
					break
				}
				live := s.find(string(ph[:])) != nil
				has := false
				for _, p := range sv.parents {
					if p == string(ph[:]) {
						has = true
					}
				}
				if live {
					verifrt.Assert(has, id("edge-from-every-live-declared-parent"))
				} else {
					ok, err := ab.checkVertexExistInStorage(ph[:])
					verifrt.Assert(err == nil && ok, id("absent-parent-is-checkpointed"))
				}
			}
			for _, p := range sv.parents {
				verifrt.Assert(p == string(v.LeftParentHash[:]) || p == string(v.RightParentHash[:]), id("no-edge-from-undeclared-parent"))
			}
			if isGenesis {
				verifrt.Assert(len(sv.parents) == 0, id("genesis-has-no-parent"))
			}
		}
		if c03 {
			trxHolders[string(v.Transaction.Hash[:])]++
			verifrt.Assert(s.index[string(v.Transaction.Hash[:])] == string(v.Hash[:]), id("index-points-at-holder"))
			inStore, err := ab.checkVertexExistInStorage(v.Hash[:])
			verifrt.Assert(err == nil && !inStore, id("vertex-not-both-live-and-checkpointed"))
		}
		if c10 && !isGenesis {
			verifrt.Assert(v.Transaction.IssuerAddress != v.SignerPublicAddress, id("not-self-sealed"))
			verifrt.Assert(v.Transaction.IssuerAddress != ab.genesisPublicAddress, id("genesis-wallet-never-issuer"))
			verifrt.Assert(!v.Transaction.IsEmpty(), id("transaction-not-empty"))
		}
	}
	if c03 {
		for _, n := range trxHolders {
			verifrt.Assert(n == 1, id("transaction-in-one-live-vertex"))
		}
		// no dangling index entry: every entry names a vertex that exists (live or checkpointed) and holds that transaction
		for th, vh := range s.index {
			if sv := s.find(vh); sv != nil {
				verifrt.Assert(string(sv.v.Transaction.Hash[:]) == th, id("index-entry-matches-live-holder"))
				continue
			}
			stored, err := ab.readVertexFromStorage([]byte(vh))
			verifrt.Assert(err == nil, id("index-entry-not-dangling"))
			if err == nil {
				verifrt.Assert(string(stored.Transaction.Hash[:]) == th, id("index-entry-matches-stored-holder"))
			}
		}
	}
	if c09 {
		// acyclic: Kahn's algorithm over the real edges
		indeg := map[string]int{}
		for i := range s.live {
			indeg[s.live[i].id] = len(s.live[i].parents)
		}
		removed := 0
		for progress := true; progress; {
			progress = false
			for i := range s.live {
				sv := &s.live[i]
				if d, ok := indeg[sv.id]; ok && d == 0 {
					delete(indeg, sv.id)
					removed++
					progress = true
					for j := range s.live {
						for _, p := range s.live[j].parents {
							if p == sv.id {
								indeg[s.live[j].id]--
							}
						}
					}
				}
			}
		}
		verifrt.Assert(removed == len(s.live), id("acyclic"))
	}
}

// vhIncoming builds a vertex offered by a peer. kind: 0 fresh, 1 the same vertex as an existing one
// (same hashes), 2 an existing transaction re-sealed in a new vertex, 3 fresh but self-sealed,
// 4 fresh but issued by the genesis wallet, 5 fresh but empty.
func (l *vhLedger) vhIncoming(kind, dup, lp, rp int) *Vertex {
	k := len(l.recs)
	in := vhTransfer(k, vhWallet("issIn"), vhWallet("rcvIn"), vhAmt("amtIn"), nil, vhPeerAddr, uint64(50+k))
	switch kind {
	case 1:
		c := *l.recs[dup].v
		in = &c
		return in
	case 2:
		in.Transaction = l.recs[dup].v.Transaction
	case 3:
		in.SignerPublicAddress = in.Transaction.IssuerAddress
	case 4:
		in.Transaction.IssuerAddress = vhGenesisAddr
	case 5:
		in.Transaction.Spice.Currency, in.Transaction.Spice.SupplementaryCurrency = 0, 0
	}
	in.LeftParentHash = l.recs[lp].v.Hash
	in.RightParentHash = l.recs[rp].v.Hash
	return in
}

// vhStepCtx: the caller's context is live, already cancelled, or cancelled after the first poll.
var vhCtxLive bool // whether the last vhStepCtx() is a context that is never cancelled

func vhStepCtx() context.Context {
	vhCtxLive = false
	switch verifrt.Choose("context", 3) {
	case 0:
		vhCtxLive = true
		return context.Background()
	case 1:
		return vhNewCtx(0)
	}
	return vhNewCtx(1)
}

func vhStepN() int {
	if vhThorough() {
		return 3
	}
	return 2
}

// vhStepAddLeaf: one gossip delivery from every ledger of the shape family, incoming item case-split.
func vhStepAddLeaf(prop string) {
	verifrt.PermuteMaps(2)
	l := vhShape(vhStepN())
	l.vhCheckpoint()
	k := len(l.recs)
	kind := verifrt.Choose("kind", 6)
	dup := 0
	if kind == 1 || kind == 2 {
		dup = 1 + verifrt.Choose("dup", k-1)
	}
	lp := verifrt.Choose("inLeft", k)
	rp := lp + verifrt.Choose("inRight", k-lp)
	in := l.vhIncoming(kind, dup, lp, rp)
	before := len(l.ab.dag.GetVertices())
	err := l.ab.AddLeaf(vhStepCtx(), in)
	l.vhCheck(prop, "addleaf")
	if err == nil {
		verifrt.Assert(kind == 0, prop+"/addleaf/only-fresh-valid-vertices-admitted")
		_, e := l.ab.dag.GetVertex(string(in.Hash[:]))
		verifrt.Assert(e == nil, prop+"/addleaf/admitted-vertex-present")
		verifrt.Reach(prop + "/addleaf/ok")
		return
	}
	if kind != 1 {
		_, e := l.ab.dag.GetVertex(string(in.Hash[:]))
		verifrt.Assert(e != nil, prop+"/addleaf/rejected-vertex-absent")
	}
	verifrt.Assert(len(l.ab.dag.GetVertices()) <= before, prop+"/addleaf/rejection-adds-nothing")
	verifrt.Reach(prop + "/addleaf/rejected")
}

// vhStepCreateLeaf: one local proposal from every ledger of the family; transaction fresh or a replay.
func vhStepCreateLeaf(prop string) {
	verifrt.PermuteMaps(2)
	l := vhShape(vhStepN())
	l.vhCheckpoint()
	k := len(l.recs)
	kind := verifrt.Choose("kind", 5)
	trx := transaction.Transaction{
		CreatedAt: l.recs[0].v.CreatedAt, IssuerAddress: vhWallet("issNew"), ReceiverAddress: vhWallet("rcvNew"),
		Subject: "s", IssuerSignature: []byte{1}, Hash: vhTrxHash(k), Spice: vhAmt("amtNew"),
	}
	if kind == 0 || kind == 2 || kind == 3 {
		switch verifrt.Choose("payload", 3) { // spice only / data only / data and spice
		case 1:
			trx.Data, trx.Spice = []byte{1}, spice.Melange{}
		case 2:
			trx.Data = []byte{1}
		}
	}
	switch kind {
	case 1: // replay of a sealed transaction
		trx = l.recs[1+verifrt.Choose("dup", k-1)].v.Transaction
	case 2: // issued by this node's own wallet
		trx.IssuerAddress = vhNodeAddr
	case 3: // issued by the genesis wallet
		trx.IssuerAddress = vhGenesisAddr
	case 4: // empty
		trx.Spice.Currency, trx.Spice.SupplementaryCurrency = 0, 0
	}
	tipsBefore := l.tips()
	tip, err := l.ab.CreateLeaf(vhStepCtx(), &trx)
	l.vhCheck(prop, "createleaf")
	if err == nil {
		verifrt.Assert(kind == 0, prop+"/createleaf/only-fresh-valid-transactions-sealed")
		if prop == "C09" {
			// parents were tips, weight = max(parent weights)+1
			var lw, rw uint64
			lt, rt := false, false
			for _, t := range tipsBefore {
				if l.recs[t].v.Hash == tip.LeftParentHash {
					lt, lw = true, l.recs[t].v.Weight
				}
				if l.recs[t].v.Hash == tip.RightParentHash {
					rt, rw = true, l.recs[t].v.Weight
				}
			}
			verifrt.Assert(lt && rt, "C09/createleaf/parents-were-tips")
			w := lw
			if rw > w {
				w = rw
			}
			verifrt.Assert(tip.Weight == w+1, "C09/createleaf/weight-is-max-plus-one")
			verifrt.Assert(tip.SignerPublicAddress == vhNodeAddr, "C09/createleaf/sealed-by-this-node")
			// "tips that were valid at that moment": each parent passes the real leaf validation under a context
			// that is never cancelled (adding a child does not change what the validation of the parent reads)
			for _, ph := range [][32]byte{tip.LeftParentHash, tip.RightParentHash} {
				pv, rerr := l.ab.readVertexFromDAG(ph[:])
				verifrt.Assert(rerr == nil, "C09/createleaf/parent-still-live")
				if rerr == nil {
					verifrt.Assert(l.ab.validateLeaf(context.Background(), &pv) == nil, "C09/createleaf/parents-were-valid-tips")
				}
			}
		}
		verifrt.Reach(prop + "/createleaf/ok")
		return
	}
	// a transaction whose tentative vertex was dropped can be proposed again: covered by vhCheck (no dangling index)
	verifrt.Reach(prop + "/createleaf/rejected")
}

func VH_C03_step_addleaf()    { vhStepAddLeaf("C03") }
func VH_C03_step_createleaf() { vhStepCreateLeaf("C03") }
func VH_C09_step_addleaf()    { vhStepAddLeaf("C09") }
func VH_C09_step_createleaf() { vhStepCreateLeaf("C09") }
func VH_C10_step_addleaf()    { vhStepAddLeaf("C10") }
func VH_C10_step_createleaf() { vhStepCreateLeaf("C10") }
