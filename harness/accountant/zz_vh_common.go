//go:build verif

package accountant

// Shared harness infrastructure: an AccountingBook built directly (no background
// goroutines, no disk), test doubles for signer / verifier / logger, shape
// generators with the harness' own copy of the history, and a read-only snapshot.

import (
	"time"

	"github.com/heimdalr/dag"

	"github.com/bartossh/Computantis/src/spice"
	"github.com/bartossh/Computantis/src/transaction"
	"github.com/bartossh/Computantis/src/verifrt"
)

type vhLogger struct{ fatal *int }

func (vhLogger) Debug(string) {}
func (vhLogger) Info(string)  {}
func (vhLogger) Warn(string)  {}
func (vhLogger) Error(string) {}
func (l vhLogger) Fatal(string) {
	if l.fatal != nil {
		*l.fatal++
	}
}

// vhSigner yields distinct deterministic digests (0xEE, counter): sealing is not the subject here.
type vhSigner struct {
	addr string
	n    *int
}

func (s vhSigner) Sign(msg []byte) ([32]byte, []byte) {
	*s.n++
	var h [32]byte
	h[0], h[1] = 0xEE, byte(*s.n)
	return h, []byte{1}
}
func (s vhSigner) Address() string { return s.addr }

// vhVerifier accepts every signature (signature binding is C04's subject).
type vhVerifier struct{}

func (vhVerifier) Verify(message, signature []byte, hash [32]byte, address string) error { return nil }

const (
	vhGenesisAddr = "G" // genesis wallet = sealing node of the genesis vertex
	vhNodeAddr    = "N" // this node's wallet
	vhPeerAddr    = "P" // a peer node's wallet
)

func vhNewBook() *AccountingBook {
	n := 0
	ab := &AccountingBook{
		truncateSignal:     make(chan uint64, initialThroughput),
		repeater:           &buffer{pub: make(chan memory, 8), members: make([]memory, 0, 8)},
		verifier:           vhVerifier{},
		signer:             vhSigner{addr: vhNodeAddr, n: &n},
		log:                vhLogger{},
		dag:                dag.NewDAG(),
		trustedNodesDB:     verifrt.NewDB(),
		trxsToVertxDB:      verifrt.NewDB(),
		verticesDB:         verifrt.NewDB(),
		nextWeightTruncate: truncateVrxTopMark,
	}
	return ab
}

func vhHash(i int) [32]byte {
	var h [32]byte
	h[0], h[1], h[2] = byte(i+1), 0x11, byte((i+1)>>8)
	return h
}

func vhTrxHash(i int) [32]byte {
	var h [32]byte
	h[0], h[1], h[2] = byte(i+1), 0x77, byte((i+1)>>8)
	return h
}

// vhRec is the harness' own record of one vertex of the history.
type vhRec struct {
	v       *Vertex
	parents []int
}

type vhLedger struct {
	ab   *AccountingBook
	recs []vhRec
}

func vhTransfer(i int, issuer, receiver string, amount spice.Melange, data []byte, sealer string, weight uint64) *Vertex {
	return &Vertex{
		SignerPublicAddress: sealer,
		CreatedAt:           time.Unix(1700000000+int64(i), 0),
		Signature:           []byte{1},
		Transaction: transaction.Transaction{
			CreatedAt:       time.Unix(1700000000+int64(i), 0),
			IssuerAddress:   issuer,
			ReceiverAddress: receiver,
			Subject:         "s",
			Data:            data,
			IssuerSignature: []byte{1},
			Hash:            vhTrxHash(i),
			Spice:           amount,
		},
		Hash:   vhHash(i),
		Weight: weight,
	}
}

// add admits v below the given parents exactly as the real admission leaves it:
// vertex by id, one edge per distinct parent, transaction index entry.
func (l *vhLedger) add(v *Vertex, parents ...int) int {
	if len(parents) > 0 {
		v.LeftParentHash = l.recs[parents[0]].v.Hash
		v.RightParentHash = l.recs[parents[len(parents)-1]].v.Hash
	}
	if err := l.ab.dag.AddVertexByID(string(v.Hash[:]), v); err != nil {
		panic("vh: add vertex: " + err.Error())
	}
	var last = -1
	for _, p := range parents {
		if p == last {
			continue
		}
		if err := l.ab.dag.AddEdge(string(l.recs[p].v.Hash[:]), string(v.Hash[:])); err != nil {
			panic("vh: add edge: " + err.Error())
		}
		last = p
	}
	if err := l.ab.saveTrxInVertex(v.Transaction.Hash[:], v.Hash[:]); err != nil {
		panic("vh: index: " + err.Error())
	}
	l.recs = append(l.recs, vhRec{v: v, parents: parents})
	return len(l.recs) - 1
}

// vhGenesisLedger: genesis wallet G pays `supply` to wallet `to`.
func vhGenesisLedger(to string, supply spice.Melange) *vhLedger {
	l := &vhLedger{ab: vhNewBook()}
	g := vhTransfer(0, vhGenesisAddr, to, supply, nil, vhGenesisAddr, 0)
	l.add(g)
	l.ab.throughput.Store(initialThroughput)
	l.ab.updateWeightAndThroughput(initialThroughput)
	l.ab.dagLoaded = true
	l.ab.genesisPublicAddress = vhGenesisAddr
	return l
}

// ancestors returns the indexes of all proper ancestors of vertex i (harness' own graph walk).
func (l *vhLedger) ancestors(i int) []int {
	seen := make([]bool, len(l.recs))
	var out []int
	stack := append([]int{}, l.recs[i].parents...)
	for len(stack) > 0 {
		p := stack[len(stack)-1]
		stack = stack[:len(stack)-1]
		if seen[p] {
			continue
		}
		seen[p] = true
		out = append(out, p)
		stack = append(stack, l.recs[p].parents...)
	}
	return out
}

func (l *vhLedger) tips() []int {
	hasChild := make([]bool, len(l.recs))
	for _, r := range l.recs {
		for _, p := range r.parents {
			hasChild[p] = true
		}
	}
	var out []int
	for i := range l.recs {
		if !hasChild[i] {
			out = append(out, i)
		}
	}
	return out
}

// ---- Z helpers ----

func vhZ(m spice.Melange) verifrt.Z {
	return verifrt.ZAdd(verifrt.ZMulU64(verifrt.ZU64(m.Currency), spice.MaxAmountPerSupplementaryCurrency), verifrt.ZU64(m.SupplementaryCurrency))
}

func vhCanon(m spice.Melange) bool {
	return m.SupplementaryCurrency < spice.MaxAmountPerSupplementaryCurrency
}

func vhZero() verifrt.Z { return verifrt.ZU64(0) }

// vhLimit = 2^64 * 10^18, the first unrepresentable value.
func vhLimit() verifrt.Z {
	return verifrt.ZMulU64(verifrt.ZPow2x64(), spice.MaxAmountPerSupplementaryCurrency)
}

// vhAmount yields an arbitrary canonical amount.
func vhAmount(name string) spice.Melange {
	m := spice.Melange{Currency: verifrt.NondetU64(name + ".cur"), SupplementaryCurrency: verifrt.NondetU64(name + ".sup")}
	verifrt.Assume(vhCanon(m))
	return m
}

// vhAmt yields a canonical amount whose currency part is below 2^59, so that sums over the bounded
// histories never reach the 2^64 overflow edge (that edge is covered by C05 on the primitives and by
// the dedicated *_overflow harnesses with full-width amounts); carry/borrow edges of the
// supplementary part stay fully symbolic.
func vhAmt(name string) spice.Melange {
	m := spice.Melange{Currency: verifrt.NondetU64(name + ".cur"), SupplementaryCurrency: verifrt.NondetU64(name + ".sup")}
	verifrt.Assume(verifrt.And(vhCanon(m), m.Currency < 1<<59))
	return m
}

// vhWallet yields one of the wallet addresses "A","B","C" symbolically (one symbolic byte).
func vhWallet(name string) string {
	s := verifrt.NondetString(name, 1, 1)
	verifrt.Assume(verifrt.And(s[0] >= 'A', s[0] <= 'C'))
	return s
}

// inflow/outflow of address q over the given vertex set, in Z, for spice transfers only.
func (l *vhLedger) flows(q string, set []int) (in, out verifrt.Z) {
	in, out = vhZero(), vhZero()
	for _, i := range set {
		t := &l.recs[i].v.Transaction
		amt := vhZ(t.Spice)
		in = verifrt.ZAdd(in, verifrt.ZIte(t.ReceiverAddress == q, amt, vhZero()))
		out = verifrt.ZAdd(out, verifrt.ZIte(t.IssuerAddress == q, amt, vhZero()))
	}
	return
}

// ---- shape generator ----

// vhTier reports whether the thorough tier is running (engine: intercepted; natively: env).
func vhThorough() bool { return verifrt.Thorough() }

// vhShape builds genesis(G -> A: supply) plus n vertices; vertex i takes two parents chosen
// (enumerated, not solved) among the earlier vertices, left <= right. Issuer, receiver and amount
// of every vertex are symbolic (wallets A..C, all canonical 64-bit amounts); sealer is the peer P.
func vhShape(n int) *vhLedger {
	l := vhGenesisLedger("A", vhAmt("supply"))
	for i := 1; i <= n; i++ {
		lp := verifrt.Choose("left"+verifrt.Itoa(i), i)
		rp := lp + verifrt.Choose("right"+verifrt.Itoa(i), i-lp)
		var data []byte
		if i == n && verifrt.Choose("data"+verifrt.Itoa(i), 2) == 1 {
			data = []byte{7} // the newest vertex may also carry a payload (mixed data+spice transaction)
		}
		v := vhTransfer(i, vhWallet("iss"+verifrt.Itoa(i)), vhWallet("rcv"+verifrt.Itoa(i)), vhAmt("amt"+verifrt.Itoa(i)), data, vhPeerAddr, uint64(50+i))
		verifrt.Assume(!v.Transaction.IsEmpty()) // admitted vertices never carry an empty transaction (C10)
		l.add(v, lp, rp)
	}
	return l
}

// vhChain builds genesis plus a chain of n symbolic transfers.
func vhChain(n int) *vhLedger {
	l := vhGenesisLedger("A", vhAmount("supply"))
	for i := 1; i <= n; i++ {
		v := vhTransfer(i, vhWallet("iss"+verifrt.Itoa(i)), vhWallet("rcv"+verifrt.Itoa(i)), vhAmount("amt"+verifrt.Itoa(i)), nil, vhPeerAddr, uint64(50+i))
		verifrt.Assume(!v.Transaction.IsEmpty()) // admitted vertices never carry an empty transaction (C10)
		l.add(v, i-1)
	}
	return l
}

// vhCheckpoint stores symbolic checkpointed funds (as a truncation would have): either no entry at
// all, or an entry for wallets A and B (C stays absent so the "no entry" read path is exercised too).
func (l *vhLedger) vhCheckpoint() map[string]spice.Melange {
	cp := map[string]spice.Melange{}
	if verifrt.Choose("cp", 2) == 0 {
		return cp
	}
	for _, a := range []string{"A", "B"} {
		{
			m := vhAmt("cp" + a)
			if err := l.ab.saveFundsToStorage(a, m); err != nil {
				panic("vh: checkpoint: " + err.Error())
			}
			cp[a] = m
		}
	}
	return cp
}

// cpZ is the checkpointed amount of wallet q in Z (q symbolic among A..C).
func vhCpZ(cp map[string]spice.Melange, q string) verifrt.Z {
	z := vhZero()
	for _, a := range []string{"A", "B", "C"} {
		if m, ok := cp[a]; ok {
			z = verifrt.ZAdd(z, verifrt.ZIte(q == a, vhZ(m), vhZero()))
		}
	}
	return z
}
