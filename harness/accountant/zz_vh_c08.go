//go:build verif

package accountant

// C08: ledger operations never wedge the node. Every consumer of the ancestor walker runs against
// the REAL producer goroutine (heimdalr/dag walkAncestors, which holds the graph read lock while it
// is blocked on its send) under the engine's scheduler: all schedules within the preemption bound,
// the caller's context cancelled after 0..n polls, validation errors at any ancestor. After the
// operation returned no goroutine may be blocked forever and a write to the graph must complete.

import (
	"context"
	"errors"
	"time"

	"github.com/bartossh/Computantis/src/spice"
	"github.com/bartossh/Computantis/src/transaction"
	"github.com/bartossh/Computantis/src/verifrt"
)

// vhCtx is a context whose Done channel is closed from the k-th poll on.
type vhCtx struct {
	polls  *int
	after  int
	open   chan struct{}
	closed chan struct{}
}

func vhNewCtx(after int) vhCtx {
	c := vhCtx{polls: new(int), after: after, open: make(chan struct{}), closed: make(chan struct{})}
	close(c.closed)
	return c
}
func (c vhCtx) Deadline() (time.Time, bool) { return time.Time{}, false }
func (c vhCtx) Done() <-chan struct{} {
	*c.polls++
	if *c.polls > c.after {
		return c.closed
	}
	return c.open
}
func (c vhCtx) Err() error {
	if *c.polls > c.after {
		return context.Canceled
	}
	return nil
}
func (c vhCtx) Value(key any) any { return nil }

// vhFlakyVerifier fails nondeterministically (a corrupted signature anywhere in the history).
type vhFlakyVerifier struct{}

var errVhSig = errors.New("vh: bad signature")

func (vhFlakyVerifier) Verify(message, signature []byte, hash [32]byte, address string) error {
	if verifrt.NondetBool("verify.ok") {
		return nil
	}
	return errVhSig
}

func vhC08Preemptions() int {
	if vhThorough() {
		return 3
	}
	return 2
}

// vhWriteProbe: after the operation, a graph write (which needs the dag write lock and therefore
// every walker to have released its read lock) must complete.
func (l *vhLedger) vhWriteProbe(name string) {
	probe := func() {
		v := vhTransfer(40, "A", "B", spice.New(0, 1), nil, vhPeerAddr, 99)
		if err := l.ab.dag.AddVertexByID(string(v.Hash[:]), v); err != nil {
			panic("vh: probe: " + err.Error())
		}
		l.ab.mux.Lock() // the ledger lock is free as well
		l.ab.mux.Unlock()
	}
	if !verifrt.Native() {
		probe() // under the engine a blocked probe is a deadlock verdict
		return
	}
	done := make(chan struct{})
	go func() { probe(); close(done) }()
	select {
	case <-done:
	case <-time.After(3 * time.Second):
		verifrt.Assert(false, name+"/deadlock")
		verifrt.Assert(false, name+"/leak")
	}
}

// vhWalkLedger: genesis -> A and a chain of n concrete transfers (n ancestors below the tip).
func vhWalkLedger(n int) *vhLedger {
	l := vhGenesisLedger("A", spice.New(100, 0))
	for i := 1; i <= n; i++ {
		l.add(vhTransfer(i, "A", "B", spice.New(1, 0), nil, vhPeerAddr, uint64(50+i)), i-1)
	}
	return l
}

func vhWalkSetup(name string) (*vhLedger, vhCtx) {
	n := 1 + verifrt.Choose("ancestors", 3)
	l := vhWalkLedger(n)
	ctx := vhNewCtx(verifrt.Choose("cancel-after", n+2))
	verifrt.CheckLeaks(true)
	verifrt.ExploreSchedules(vhC08Preemptions())
	return l, ctx
}

func VH_C08_walk_balance() {
	l, ctx := vhWalkSetup("balance")
	l.ab.CalculateBalance(ctx, "A")
	l.vhWriteProbe("VH_C08_walk_balance")
	verifrt.Reach("C08/walk/balance")
}

func VH_C08_walk_history() {
	l, ctx := vhWalkSetup("history")
	l.ab.ReadDAGTransactionsByAddress(ctx, "A")
	l.vhWriteProbe("VH_C08_walk_history")
	verifrt.Reach("C08/walk/history")
}

func VH_C08_walk_validate() {
	l, ctx := vhWalkSetup("validate")
	l.ab.verifier = vhFlakyVerifier{}
	tip := l.recs[len(l.recs)-1].v
	l.ab.validateLeaf(ctx, tip)
	l.vhWriteProbe("VH_C08_walk_validate")
	verifrt.Reach("C08/walk/validate")
}

func VH_C08_walk_addleaf() {
	l, ctx := vhWalkSetup("addleaf")
	l.ab.verifier = vhFlakyVerifier{}
	k := len(l.recs)
	in := vhTransfer(k, "A", "C", spice.New(1, 0), nil, vhPeerAddr, uint64(50+k))
	in.LeftParentHash, in.RightParentHash = l.recs[k-1].v.Hash, l.recs[k-1].v.Hash
	l.ab.AddLeaf(ctx, in)
	l.vhWriteProbe("VH_C08_walk_addleaf")
	verifrt.Reach("C08/walk/addleaf")
}

func VH_C08_walk_createleaf() {
	l, ctx := vhWalkSetup("createleaf")
	l.ab.verifier = vhFlakyVerifier{}
	k := len(l.recs)
	trx := transaction.Transaction{CreatedAt: l.recs[0].v.CreatedAt, IssuerAddress: "A", ReceiverAddress: "C", Subject: "s", IssuerSignature: []byte{1}, Hash: vhTrxHash(k), Spice: spice.New(1, 0)}
	l.ab.CreateLeaf(ctx, &trx)
	l.vhWriteProbe("VH_C08_walk_createleaf")
	verifrt.Reach("C08/walk/createleaf")
}

func VH_C08_walk_stream() {
	l, ctx := vhWalkSetup("stream")
	ch := l.ab.StreamDAG(ctx)
	for range ch {
	}
	l.vhWriteProbe("VH_C08_walk_stream")
	verifrt.Reach("C08/walk/stream")
}

// VH_C08_walk_stream_two_tips: two tips sharing ancestors (the second walk meets vertices that were
// already streamed), context live or cancelled at any poll.
func VH_C08_walk_stream_two_tips() {
	n := 2 + verifrt.Choose("ancestors", 2)
	l := vhWalkLedger(n)
	k := len(l.recs)
	l.add(vhTransfer(k, "A", "C", spice.New(0, 1), nil, vhPeerAddr, uint64(50+k)), k-2) // a sibling of the last vertex
	ctx := vhNewCtx(verifrt.Choose("cancel-after", 2*n+4))
	verifrt.CheckLeaks(true)
	verifrt.ExploreSchedules(1)
	for range l.ab.StreamDAG(ctx) {
	}
	l.vhWriteProbe("VH_C08_walk_stream_two_tips")
	verifrt.Reach("C08/walk/stream-two-tips")
}

// VH_C08_truncate: the cut is found while the walker still has ancestors to send (ErrBreak exit), for
// every depth; afterwards the ledger is usable.
func VH_C08_truncate() {
	n := 2 + verifrt.Choose("ancestors", 3)
	l := vhWalkLedger(n)
	l.vhSetDepth(1 + verifrt.Choose("depth", n))
	ctx := vhNewCtx(verifrt.Choose("cancel-after", 3) + 100*verifrt.Choose("never-cancel", 2))
	verifrt.CheckLeaks(true)
	verifrt.ExploreSchedules(vhC08Preemptions())
	l.ab.truncate(ctx)
	l.vhWriteProbe("VH_C08_truncate")
	verifrt.Reach("C08/truncate")
}

// VH_C08_truncate_loop: the background truncation loop. A gossiped vertex may declare any weight (it
// is never compared with its parents'), so a weight above the truncation mark reaches runTruncate on
// a ledger whose tip has far fewer ancestors than the cut depth. Afterwards every admission must
// still complete (each one sends its weight on the 50-slot truncate channel while holding the
// ledger lock).
func VH_C08_truncate_loop() {
	l := vhWalkLedger(2)
	fatal := 0
	l.ab.log = vhLogger{fatal: &fatal}
	ctx := context.Background()
	go l.ab.runTruncate(ctx)
	k := len(l.recs)
	// declared weights: an honest one, one above the truncation mark, the largest value
	w := []uint64{53, 2 * truncateVrxTopMark, 1<<64 - 1}[verifrt.Choose("declared-weight", 3)]
	in := vhTransfer(k, "A", "C", spice.New(1, 0), nil, vhPeerAddr, w)
	in.LeftParentHash, in.RightParentHash = l.recs[k-1].v.Hash, l.recs[k-1].v.Hash
	if err := l.ab.AddLeaf(ctx, in); err != nil {
		return
	}
	verifrt.Quiesce() // let the truncation loop react
	for i := 0; i < 55; i++ {
		trx := transaction.Transaction{CreatedAt: l.recs[0].v.CreatedAt, IssuerAddress: "B", ReceiverAddress: "C", Subject: "s",
			IssuerSignature: []byte{1}, Spice: spice.New(0, 1)}
		trx.Hash[0], trx.Hash[1] = byte(i), 0xC8
		if verifrt.Native() {
			done := make(chan struct{})
			go func() { l.ab.CreateLeaf(ctx, &trx); close(done) }()
			select {
			case <-done:
			case <-time.After(3 * time.Second):
				verifrt.Assert(false, "VH_C08_truncate_loop/deadlock")
				return
			}
			continue
		}
		l.ab.CreateLeaf(ctx, &trx)
		verifrt.Quiesce()
	}
	verifrt.Assert(fatal == 0, "C08/truncate-loop/no-fatal-error")
	verifrt.Reach("C08/truncate-loop/end")
}

// VH_C08_stream_vs_writer: a DAG stream being consumed while a proposal writes to the graph.
func VH_C08_stream_vs_writer() {
	n := 2
	if verifrt.Native() {
		n = 400 // real goroutines: a long walk makes the overlap with the writer likely
	}
	l := vhWalkLedger(n)
	ctx := context.Background()
	verifrt.CheckLeaks(true)
	verifrt.SearchOnly(60000) // a known finding lives here: search, do not claim exhaustiveness
	verifrt.ExploreSchedules(0)
	done := make(chan struct{})
	if verifrt.Native() {
		// real goroutines: several streams against several proposals make the overlap likely
		go func() {
			for i := 0; i < 8; i++ {
				trx := transaction.Transaction{CreatedAt: l.recs[0].v.CreatedAt, IssuerAddress: "B", ReceiverAddress: "C", Subject: "s",
					IssuerSignature: []byte{1}, Hash: vhTrxHash(1000 + i), Spice: spice.New(0, 1)}
				l.ab.CreateLeaf(ctx, &trx)
			}
			close(done)
		}()
		fin := make(chan struct{})
		go func() {
			for i := 0; i < 8; i++ {
				for range l.ab.StreamDAG(ctx) {
				}
			}
			<-done
			close(fin)
		}()
		select {
		case <-fin:
		case <-time.After(5 * time.Second):
			verifrt.Assert(false, "VH_C08_stream_vs_writer/deadlock")
		}
		return
	}
	ch := l.ab.StreamDAG(ctx)
	go func() {
		trx := transaction.Transaction{CreatedAt: l.recs[0].v.CreatedAt, IssuerAddress: "B", ReceiverAddress: "C", Subject: "s",
			IssuerSignature: []byte{1}, Hash: vhTrxHash(9), Spice: spice.New(0, 1)}
		l.ab.CreateLeaf(ctx, &trx)
		close(done)
	}()
	for range ch {
	}
	<-done
	verifrt.Reach("C08/stream-vs-writer/end")
}
