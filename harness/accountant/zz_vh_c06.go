//go:build verif

package accountant

import (
	"context"

	"github.com/bartossh/Computantis/src/verifrt"
)

// VH_C06_chain: genesis -> W, then a chain of transfers with symbolic parties and amounts;
// the real CalculateBalance (real walker goroutine) must return exactly the Z reference.
func VH_C06_chain() {
	n := 2
	l := vhGenesisLedger("A", vhAmount("supply"))
	for i := 1; i <= n; i++ {
		v := vhTransfer(i, vhWallet("iss"+verifrt.Itoa(i)), vhWallet("rcv"+verifrt.Itoa(i)), vhAmount("amt"+verifrt.Itoa(i)), nil, vhPeerAddr, uint64(50+i))
		l.add(v, i-1)
	}
	q := vhWallet("query")
	tip := l.tips()[0]
	set := append(l.ancestors(tip), tip)
	in, out := l.flows(q, set)
	bal, err := l.ab.CalculateBalance(context.Background(), q)
	if err != nil {
		verifrt.Assert(verifrt.Or(verifrt.ZLt(in, out), verifrt.Or(verifrt.ZGe(in, vhLimit()), verifrt.ZGe(out, vhLimit()))), "C06/chain/error-only-when-negative-or-overflow")
		verifrt.Reach("C06/chain/err")
		return
	}
	verifrt.Assert(verifrt.ZEq(vhZ(bal.Spice), verifrt.ZSub(in, out)), "C06/chain/exact")
	verifrt.Assert(vhCanon(bal.Spice), "C06/chain/canonical")
	verifrt.Reach("C06/chain/ok")
}
