//go:build verif

package accountant

import (
	"context"

	"github.com/bartossh/Computantis/src/spice"
	"github.com/bartossh/Computantis/src/verifrt"
)

func vhC06N() int {
	if vhThorough() {
		return 4
	}
	return 3
}

// vhBalanceSpec compares the real CalculateBalance with the Z reference over some current tip.
func vhBalanceSpec(l *vhLedger, cp map[string]spice.Melange, q string, pfx string) {
	tips := l.tips()
	bal, err := l.ab.CalculateBalance(context.Background(), q)
	// the result must equal f(t) for at least one current tip t
	matches, allNeg, anyOvf := false, true, false
	for _, t := range tips {
		set := append(l.ancestors(t), t)
		in, out := l.flows(q, set)
		tot := verifrt.ZAdd(in, vhCpZ(cp, q))
		neg := verifrt.ZLt(tot, out)
		allNeg = verifrt.And(allNeg, neg)
		anyOvf = verifrt.Or(anyOvf, verifrt.Or(verifrt.ZGe(tot, vhLimit()), verifrt.ZGe(out, vhLimit())))
		if err == nil {
			matches = verifrt.Or(matches, verifrt.ZEq(vhZ(bal.Spice), verifrt.ZSub(tot, out)))
		} else {
			matches = verifrt.Or(matches, verifrt.Or(neg, anyOvf))
		}
	}
	if err != nil {
		verifrt.Assert(matches, pfx+"/error-only-when-negative-or-overflow")
		verifrt.Reach(pfx + "/err")
		return
	}
	verifrt.Assert(matches, pfx+"/exact-for-some-tip")
	verifrt.Assert(verifrt.Not(allNeg), pfx+"/negative-sum-is-an-error")
	verifrt.Assert(vhCanon(bal.Spice), pfx+"/canonical")
	verifrt.Assert(bal.WalletPublicAddress == q, pfx+"/address-echoed")
	verifrt.Reach(pfx + "/ok")
}

// VH_C06_shapes: every DAG shape in the bound, symbolic parties and amounts, optional checkpoint,
// the queried wallet symbolic among A..C.
func VH_C06_shapes() {
	verifrt.PermuteMaps(3)
	l := vhShape(vhC06N())
	cp := l.vhCheckpoint()
	vhBalanceSpec(l, cp, vhWallet("query"), "C06/shapes")
}

// VH_C06_absent: an address that never appears has balance zero (or its checkpoint), never an error.
func VH_C06_absent() {
	l := vhShape(2)
	bal, err := l.ab.CalculateBalance(context.Background(), "Z")
	verifrt.Assert(err == nil, "C06/absent/no-error")
	verifrt.Assert(bal.Spice.Empty(), "C06/absent/zero")
	verifrt.Reach("C06/absent/end")
}

// VH_C06_readonly: the query changes nothing (vertex set, edges, index, checkpoint) and leaves the
// book usable: a second query gives the same answer and a proposal still completes.
func VH_C06_readonly() {
	l := vhShape(2)
	cp := l.vhCheckpoint()
	q := vhWallet("query")
	before := l.snapshot()
	cpBefore := vhDBEntries(l.ab.verticesDB)
	b1, e1 := l.ab.CalculateBalance(context.Background(), q)
	after := l.snapshot()
	cpAfter := vhDBEntries(l.ab.verticesDB)
	verifrt.Assert(len(before.live) == len(after.live) && len(before.index) == len(after.index) && len(cpBefore) == len(cpAfter), "C06/readonly/nothing-added-or-removed")
	for _, sv := range before.live {
		a := after.find(sv.id)
		verifrt.Assert(a != nil && a.v == sv.v && len(a.parents) == len(sv.parents), "C06/readonly/vertices-and-edges-unchanged")
	}
	for k, v := range cpBefore {
		verifrt.Assert(cpAfter[k] == v, "C06/readonly/checkpoint-unchanged")
	}
	b2, e2 := l.ab.CalculateBalance(context.Background(), q)
	verifrt.Assert((e1 == nil) == (e2 == nil), "C06/readonly/repeatable-verdict")
	if e1 == nil && e2 == nil {
		verifrt.Assert(b1.Spice == b2.Spice, "C06/readonly/repeatable-amount")
	}
	_ = cp
	verifrt.Reach("C06/readonly/end")
}

// VH_C06_overflow: full-width amounts on a short chain.
func VH_C06_overflow() {
	l := vhGenesisLedger("A", vhAmount("supply"))
	for i := 1; i <= 2; i++ {
		v := vhTransfer(i, vhWallet("iss"+verifrt.Itoa(i)), vhWallet("rcv"+verifrt.Itoa(i)), vhAmount("amt"+verifrt.Itoa(i)), nil, vhPeerAddr, uint64(50+i))
		l.add(v, i-1)
	}
	cp := map[string]spice.Melange{"A": vhAmount("cpA")}
	if err := l.ab.saveFundsToStorage("A", cp["A"]); err != nil {
		panic(err)
	}
	vhBalanceSpec(l, cp, vhWallet("query"), "C06/overflow")
}
