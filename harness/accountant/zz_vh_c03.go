//go:build verif

package accountant

// C03 concurrent pairs: the same transaction offered twice at the same time (two local proposals,
// proposal + gossip, the same gossiped vertex twice). All schedules within the preemption bound.

import (
	"context"
	"sync"

	"github.com/bartossh/Computantis/src/spice"
	"github.com/bartossh/Computantis/src/transaction"
	"github.com/bartossh/Computantis/src/verifrt"
)

func vhPreemptions() int {
	if vhThorough() {
		return 2
	}
	return 1
}

// vhConcreteLedger: genesis -> A: 100, A -> B: 10 (concrete data: the schedule is the subject).
func vhConcreteLedger() *vhLedger {
	l := vhGenesisLedger("A", spice.New(100, 0))
	l.add(vhTransfer(1, "A", "B", spice.New(10, 0), nil, vhPeerAddr, 51), 0)
	return l
}

func vhCountHolders(l *vhLedger, trxHash [32]byte) int {
	n := 0
	for _, item := range l.ab.dag.GetVertices() {
		if v, ok := item.(*Vertex); ok && v != nil && v.Transaction.Hash == trxHash {
			n++
		}
	}
	return n
}

func VH_C03_pair_create_create() {
	l := vhConcreteLedger()
	trx := transaction.Transaction{CreatedAt: l.recs[0].v.CreatedAt, IssuerAddress: "A", ReceiverAddress: "C",
		Subject: "s", IssuerSignature: []byte{1}, Hash: vhTrxHash(9), Spice: vhAmt("amt")}
	verifrt.Assume(trx.IsSpiceTransfer())
	verifrt.ExploreSchedules(vhPreemptions() + 1)
	var wg sync.WaitGroup
	errs := make([]error, 2)
	for i := 0; i < 2; i++ {
		wg.Add(1)
		go func(i int) {
			defer wg.Done()
			t := trx
			_, errs[i] = l.ab.CreateLeaf(context.Background(), &t)
		}(i)
	}
	wg.Wait()
	verifrt.Assert(errs[0] != nil || errs[1] != nil, "C03/pair/create-create/at-most-one-succeeds")
	verifrt.Assert(vhCountHolders(l, trx.Hash) <= 1, "C03/pair/create-create/one-holder")
	l.vhCheck("C03", "pair-create-create")
	// the transaction stays refused afterwards
	t := trx
	_, err := l.ab.CreateLeaf(context.Background(), &t)
	if errs[0] == nil || errs[1] == nil {
		// unless the tentative vertex was dropped as overdrawing (A holds 90), the replay is refused
		covered := verifrt.ZLe(vhZ(trx.Spice), vhZ(spice.New(90, 0)))
		verifrt.Assert(verifrt.Or(err != nil, !covered), "C03/pair/create-create/replay-refused")
	}
	verifrt.Assert(vhCountHolders(l, trx.Hash) <= 1, "C03/pair/create-create/one-holder-after-replay")
	verifrt.Reach("C03/pair/create-create/end")
}

func VH_C03_pair_create_add() {
	l := vhConcreteLedger()
	trx := transaction.Transaction{CreatedAt: l.recs[0].v.CreatedAt, IssuerAddress: "A", ReceiverAddress: "C",
		Subject: "s", IssuerSignature: []byte{1}, Hash: vhTrxHash(9), Spice: spice.New(5, 0)}
	in := vhTransfer(7, "A", "C", spice.New(5, 0), nil, vhPeerAddr, 52)
	in.Transaction = trx
	in.LeftParentHash, in.RightParentHash = l.recs[1].v.Hash, l.recs[1].v.Hash
	verifrt.ExploreSchedules(vhPreemptions())
	var wg sync.WaitGroup
	var e1, e2 error
	wg.Add(2)
	go func() {
		defer wg.Done()
		t := trx
		_, e1 = l.ab.CreateLeaf(context.Background(), &t)
	}()
	go func() {
		defer wg.Done()
		e2 = l.ab.AddLeaf(context.Background(), in)
	}()
	wg.Wait()
	verifrt.Assert(e1 != nil || e2 != nil, "C03/pair/create-add/at-most-one-succeeds")
	verifrt.Assert(vhCountHolders(l, trx.Hash) <= 1, "C03/pair/create-add/one-holder")
	l.vhCheck("C03", "pair-create-add")
	verifrt.Reach("C03/pair/create-add/end")
}

func VH_C03_pair_add_add() {
	l := vhConcreteLedger()
	in := vhTransfer(7, "A", "C", spice.New(5, 0), nil, vhPeerAddr, 52)
	in.LeftParentHash, in.RightParentHash = l.recs[1].v.Hash, l.recs[1].v.Hash
	// the same transaction sealed by another node in a different vertex
	in2 := vhTransfer(8, "A", "C", spice.New(5, 0), nil, "Q", 52)
	in2.Transaction = in.Transaction
	in2.LeftParentHash, in2.RightParentHash = l.recs[1].v.Hash, l.recs[0].v.Hash
	same := verifrt.Choose("sameVertex", 2) == 1
	if same {
		c := *in
		in2 = &c
	}
	verifrt.ExploreSchedules(vhPreemptions())
	var wg sync.WaitGroup
	var e1, e2 error
	wg.Add(2)
	go func() {
		defer wg.Done()
		e1 = l.ab.AddLeaf(context.Background(), in)
	}()
	go func() {
		defer wg.Done()
		e2 = l.ab.AddLeaf(context.Background(), in2)
	}()
	wg.Wait()
	verifrt.Assert(e1 != nil || e2 != nil, "C03/pair/add-add/at-most-one-succeeds")
	verifrt.Assert(vhCountHolders(l, in.Transaction.Hash) <= 1, "C03/pair/add-add/one-holder")
	l.vhCheck("C03", "pair-add-add")
	verifrt.Reach("C03/pair/add-add/end")
}
