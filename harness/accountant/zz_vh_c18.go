//go:build verif

package accountant

// C18: concurrent use of a loaded node is free of data races. Pairs / triples of ledger operations
// and the background loops run under the engine's scheduler with a happens-before tracker (vector
// clocks over goroutine start, channel operations, mutexes, atomics and the atomic storage models):
// two accesses to the same memory cell, one of them a write, not ordered by happens-before = race.
// A candidate is confirmed natively by running the same workload in a loop under `go test -race`.

import (
	"context"
	"sync"
	"time"

	"github.com/bartossh/Computantis/src/spice"
	"github.com/bartossh/Computantis/src/transaction"
	"github.com/bartossh/Computantis/src/verifrt"
)

// vhRaceMode: happens-before tracking over a bounded number of schedules. A race is a property of the
// happens-before relation, not of the particular interleaving, so every explored schedule stands for
// all its reorderings; the search is bounded (not exhaustive) and says so in the evidence.
func vhRaceMode() {
	verifrt.TrackRaces(true)
	verifrt.ExploreSchedules(0)
	n := 1500
	if vhThorough() {
		n = 20000
	}
	verifrt.SearchBudget(n)
}

func vhRaceSetup() *vhLedger {
	l := vhWalkLedger(2)
	vhRaceMode()
	return l
}

// vhTrxN: a proposal with a symbolic amount (so covered and overdrawing tips - and with them the
// tip-deletion paths - are both explored; natively a small concrete amount).
func vhTrxN(l *vhLedger, n int, iss, rcv string) *transaction.Transaction {
	amt := spice.New(0, 1)
	if !verifrt.Native() && n < 2 {
		amt = vhAmt("amount" + verifrt.Itoa(n))
		verifrt.Assume(!amt.Empty())
	}
	return &transaction.Transaction{CreatedAt: l.recs[0].v.CreatedAt, IssuerAddress: iss, ReceiverAddress: rcv, Subject: "s",
		IssuerSignature: []byte{1}, Hash: vhTrxHash(100 + n), Spice: amt}
}

// vhRounds: natively the workload is repeated so that the race detector sees the overlap.
func vhRounds() int {
	if verifrt.Native() {
		return 30
	}
	return 1
}

func vhPar(fs ...func()) {
	var wg sync.WaitGroup
	for _, f := range fs {
		wg.Add(1)
		go func(f func()) { defer wg.Done(); f() }(f)
	}
	wg.Wait()
}

func VH_C18_proposals_and_gossip() {
	l := vhRaceSetup()
	ctx := context.Background()
	for r := 0; r < vhRounds(); r++ {
		k := len(l.ab.dag.GetVertices())
		tipHash := l.recs[len(l.recs)-1].v.Hash
		in := vhTransfer(200+r, "A", "C", spice.New(0, 1), nil, vhPeerAddr, uint64(60+k))
		in.LeftParentHash, in.RightParentHash = tipHash, tipHash
		vhPar(
			func() { l.ab.CreateLeaf(ctx, vhTrxN(l, 2*r, "A", "B")) },
			func() { l.ab.CreateLeaf(ctx, vhTrxN(l, 2*r+1, "B", "C")) },
			func() { l.ab.AddLeaf(ctx, in) },
		)
	}
	verifrt.Reach("C18/proposals-and-gossip")
}

func VH_C18_reads_vs_writes() {
	l := vhRaceSetup()
	ctx := context.Background()
	old := l.recs[0].v.Hash
	for r := 0; r < vhRounds(); r++ {
		vhPar(
			func() { l.ab.CreateLeaf(ctx, vhTrxN(l, r, "A", "B")) },
			func() {
				l.ab.CalculateBalance(ctx, "A")
				l.ab.ReadVertex(ctx, old)
			},
			func() {
				l.ab.ReadDAGTransactionsByAddress(ctx, "B")
				l.ab.ReadTransactionByHash(ctx, l.recs[1].v.Transaction.Hash)
				l.ab.Address()
				l.ab.DagLoaded()
			},
		)
	}
	verifrt.Reach("C18/reads-vs-writes")
}

func VH_C18_stream_vs_reads() {
	l := vhRaceSetup()
	ctx := context.Background()
	for r := 0; r < vhRounds(); r++ {
		vhPar(
			func() {
				for range l.ab.StreamDAG(ctx) {
				}
			},
			func() { l.ab.CalculateBalance(ctx, "B") },
		)
	}
	verifrt.Reach("C18/stream-vs-reads")
}

// VH_C18_truncate_vs_reads: a truncation archives old vertices while lock-free and locked readers run.
func VH_C18_truncate_vs_reads() {
	l := vhWalkLedger(3)
	l.vhSetDepth(1)
	vhRaceMode()
	ctx := context.Background()
	old := l.recs[0].v.Hash
	vhPar(
		func() { l.ab.truncate(ctx) },
		func() {
			l.ab.ReadVertex(ctx, old)
			l.ab.CalculateBalance(ctx, "A")
			l.ab.ReadTransactionByHash(ctx, l.recs[0].v.Transaction.Hash)
		},
		func() { l.ab.CreateLeaf(ctx, vhTrxN(l, 1, "A", "B")) },
	)
	verifrt.Reach("C18/truncate-vs-reads")
}

// VH_C18_truncate_loop_vs_proposals: the background truncation loop reacting to an admitted vertex
// while proposals keep arriving.
func VH_C18_truncate_loop_vs_proposals() {
	l := vhWalkLedger(3)
	l.vhSetDepth(1)
	vhRaceMode()
	ctx, cancel := context.WithCancel(context.Background())
	go l.ab.runTruncate(ctx)
	k := len(l.recs)
	in := vhTransfer(k, "A", "C", spice.New(0, 1), nil, vhPeerAddr, 3*truncateVrxTopMark) // a weight above the truncation mark
	in.LeftParentHash, in.RightParentHash = l.recs[k-1].v.Hash, l.recs[k-1].v.Hash
	l.ab.AddLeaf(ctx, in)
	verifrt.Quiesce() // the truncation loop picks the weight up
	for r := 0; r < 3; r++ {
		l.ab.CreateLeaf(ctx, vhTrxN(l, r, "B", "C"))
		verifrt.Quiesce()
	}
	cancel()
	verifrt.Reach("C18/truncate-loop-vs-proposals")
}

// VH_C18_orphan_buffer: the retry ticker of the orphan buffer against parking of new orphans.
func VH_C18_orphan_buffer() {
	vhRaceMode()
	ctx, cancel := context.WithCancel(context.Background())
	b, err := newReplierBuffer(ctx, time.Millisecond)
	if err != nil {
		panic(err)
	}
	l := vhWalkLedger(1)
	l.ab.repeater = b
	go l.ab.runLeafSubscriber(ctx)
	for r := 0; r < 3*vhRounds(); r++ {
		in := vhTransfer(300+r, "A", "C", spice.New(0, 1), nil, vhPeerAddr, 60)
		in.LeftParentHash[0], in.RightParentHash[0] = 0x99, 0x99 // unknown parents: parked
		l.ab.AddLeaf(ctx, in)
		verifrt.Tick()
		verifrt.Quiesce()
	}
	cancel()
	verifrt.Reach("C18/orphan-buffer")
}

// VH_C18_truncate_vs_retry: a truncation (and the proposals around it) while the orphan buffer is not
// empty and its retry ticker pops and replays parked vertices.
func VH_C18_truncate_vs_retry() {
	l := vhWalkLedger(3)
	l.vhSetDepth(1)
	vhRaceMode()
	ctx, cancel := context.WithCancel(context.Background())
	b, err := newReplierBuffer(ctx, time.Millisecond)
	if err != nil {
		panic(err)
	}
	l.ab.repeater = b
	go l.ab.runLeafSubscriber(ctx)
	for r := 0; r < 2*vhRounds(); r++ {
		for j := 0; j < 2; j++ {
			in := vhTransfer(400+2*r+j, "A", "C", spice.New(0, 1), nil, vhPeerAddr, 60)
			in.LeftParentHash[0], in.RightParentHash[0] = 0x98, 0x98 // unknown parents: parked
			l.ab.AddLeaf(ctx, in)
		}
		verifrt.Tick() // the ticker fires ...
		l.ab.truncate(ctx) // ... while a truncation runs
		l.ab.CreateLeaf(ctx, vhTrxN(l, 10+r, "B", "C"))
		verifrt.Quiesce()
	}
	cancel()
	verifrt.Reach("C18/truncate-vs-retry")
}
