//go:build verif

package accountant

// C02: ledger-wide conservation over the confirmed set (vertices with a child), built by the REAL
// operations (CreateLeaf / AddLeaf) from a genesis ledger, with symbolic amounts and enumerated
// party patterns; per-wallet inflow/outflow and the supply are recomputed in unbounded integers from
// the harness' own record of what was offered.

import (
	"context"

	"github.com/bartossh/Computantis/src/spice"
	"github.com/bartossh/Computantis/src/transaction"
	"github.com/bartossh/Computantis/src/verifrt"
)

type vhOffered struct {
	trx    transaction.Transaction
	vertex [32]byte
}

func vhTrxFor(k int, iss, rcv string, amt spice.Melange) transaction.Transaction {
	return transaction.Transaction{CreatedAt: vhTransfer(k, "", "", amt, nil, "", 0).CreatedAt, IssuerAddress: iss, ReceiverAddress: rcv,
		Subject: "s", IssuerSignature: []byte{1}, Hash: vhTrxHash(k), Spice: amt}
}

// confirmedFlows: Z inflow/outflow of wallet q over live vertices that have a child.
func (l *vhLedger) vhConfirmedFlows(offered []vhOffered, q string) (in, out verifrt.Z) {
	in, out = vhZero(), vhZero()
	for _, o := range offered {
		id := string(o.vertex[:])
		if _, err := l.ab.dag.GetVertex(id); err != nil {
			continue // dropped
		}
		ch, err := l.ab.dag.GetChildren(id)
		if err != nil || len(ch) == 0 {
			continue // a tentative tip
		}
		amt := vhZ(o.trx.Spice)
		if o.trx.ReceiverAddress == q {
			in = verifrt.ZAdd(in, amt)
		}
		if o.trx.IssuerAddress == q {
			out = verifrt.ZAdd(out, amt)
		}
	}
	return
}

func vhC02Steps() int {
	if vhThorough() {
		return 4
	}
	return 3
}

// VH_C02_chain_conservation: proposals on one node (a ledger that grows as a single chain of tips).
func VH_C02_chain_conservation() {
	verifrt.PermuteMaps(2)
	supply := vhAmt("supply")
	verifrt.Assume(!supply.Empty())
	l := vhGenesisLedger("A", supply)
	offered := []vhOffered{{trx: l.recs[0].v.Transaction, vertex: l.recs[0].v.Hash}}
	for k := 1; k <= vhC02Steps(); k++ {
		p := vhPatterns[verifrt.Choose("pattern"+verifrt.Itoa(k), len(vhPatterns))]
		amt := vhAmt("amt" + verifrt.Itoa(k))
		verifrt.Assume(!amt.Empty())
		trx := vhTrxFor(k, p[0], p[1], amt)
		if verifrt.Choose("with-data"+verifrt.Itoa(k), 2) == 1 {
			trx.Data = []byte{1} // a contract that also moves spice
		}
		tip, err := l.ab.CreateLeaf(context.Background(), &trx)
		if err == nil {
			offered = append(offered, vhOffered{trx: trx, vertex: tip.Hash})
		}
	}
	l.vhConservation(offered, supply, "chain")
	verifrt.Reach("C02/chain/end")
}

// vhConservation: no wallet overdrawn on the confirmed set; reported balances add up to the supply.
func (l *vhLedger) vhConservation(offered []vhOffered, supply spice.Melange, where string) {
	total := vhZero()
	allOK := true
	for _, q := range []string{"A", "B", "C"} {
		in, out := l.vhConfirmedFlows(offered, q)
		verifrt.Assert(verifrt.ZGe(in, out), "C02/"+where+"/no-wallet-overdrawn-on-the-confirmed-set")
		bal, err := l.ab.CalculateBalance(context.Background(), q)
		if err != nil {
			allOK = false
		} else {
			total = verifrt.ZAdd(total, vhZ(bal.Spice))
		}
	}
	if allOK {
		verifrt.Assert(verifrt.ZEq(total, vhZ(supply)), "C02/"+where+"/reported-balances-add-up-to-the-genesis-supply")
	}
}

// VH_C02_gossip_chain: the same history arriving by gossip from another node (AddLeaf), each delivery with
// a live, an already cancelled or a late-cancelled context: an interrupted validation must not confirm a spend.
func VH_C02_gossip_chain() {
	verifrt.PermuteMaps(2)
	supply := vhAmt("supply")
	verifrt.Assume(!supply.Empty())
	l := vhGenesisLedger("A", supply)
	offered := []vhOffered{{trx: l.recs[0].v.Transaction, vertex: l.recs[0].v.Hash}}
	last := l.recs[0].v.Hash
	for k := 1; k <= vhC02Steps(); k++ {
		p := vhPatterns[verifrt.Choose("pattern"+verifrt.Itoa(k), len(vhPatterns))]
		amt := vhAmt("amt" + verifrt.Itoa(k))
		verifrt.Assume(!amt.Empty())
		in := vhTransfer(k, p[0], p[1], amt, nil, vhPeerAddr, uint64(50+k))
		in.LeftParentHash, in.RightParentHash = last, last
		var ctx context.Context = context.Background()
		if c := verifrt.Choose("context"+verifrt.Itoa(k), 3); c > 0 {
			ctx = vhNewCtx(c - 1)
		}
		if err := l.ab.AddLeaf(ctx, in); err == nil {
			offered = append(offered, vhOffered{trx: in.Transaction, vertex: in.Hash})
			last = in.Hash
		} else if _, e := l.ab.dag.GetVertex(string(last[:])); e != nil {
			// the refused delivery took its unconfirmable parent with it: continue from the surviving tip
			for i := len(offered) - 1; i >= 0; i-- {
				if _, e := l.ab.dag.GetVertex(string(offered[i].vertex[:])); e == nil {
					last = offered[i].vertex
					break
				}
			}
		}
	}
	l.vhConservation(offered, supply, "gossip-chain")
	verifrt.Reach("C02/gossip-chain/end")
}

// VH_C02_merge: two spends of the same funds sealed as siblings (one locally, one arriving by gossip
// from another node), then a proposal that takes both tips as parents.
func VH_C02_merge() {
	verifrt.PermuteMaps(2)
	supply := vhAmt("supply")
	l := vhGenesisLedger("A", supply)
	a1, a2 := vhAmt("amt1"), vhAmt("amt2")
	verifrt.Assume(verifrt.And(!a1.Empty(), !a2.Empty()))
	t1 := vhTrxFor(1, "A", "B", a1)
	tip1, err := l.ab.CreateLeaf(context.Background(), &t1)
	if err != nil {
		return
	}
	// the same wallet spends again through another node, which has not seen tip1 yet
	t2 := vhTransfer(2, "A", "C", a2, nil, vhPeerAddr, 51)
	t2.LeftParentHash, t2.RightParentHash = l.recs[0].v.Hash, l.recs[0].v.Hash
	if err := l.ab.AddLeaf(context.Background(), t2); err != nil {
		return
	}
	t3 := vhTrxFor(3, "B", "C", spice.New(0, 1))
	tip3, err := l.ab.CreateLeaf(context.Background(), &t3)
	if err != nil {
		return
	}
	offered := []vhOffered{{l.recs[0].v.Transaction, l.recs[0].v.Hash}, {t1, tip1.Hash}, {t2.Transaction, t2.Hash}, {t3, tip3.Hash}}
	// every confirmed vertex passed the per-history test on its own ...
	confirmed := func(h [32]byte) bool {
		ch, err := l.ab.dag.GetChildren(string(h[:]))
		return err == nil && len(ch) > 0
	}
	if confirmed(tip1.Hash) {
		verifrt.Assert(verifrt.ZLe(vhZ(a1), vhZ(supply)), "C02/merge/first-spend-covered-in-its-own-history")
	}
	if confirmed(t2.Hash) {
		verifrt.Assert(verifrt.ZLe(vhZ(a2), vhZ(supply)), "C02/merge/second-spend-covered-in-its-own-history")
	}
	// ... but the union of the confirmed vertices may overdraw the wallet
	in, out := l.vhConfirmedFlows(offered, "A")
	verifrt.Assert(verifrt.ZGe(in, out), "C02/merge/conflicting-sibling-spends-not-both-confirmed")
	verifrt.Reach("C02/merge/end")
}
