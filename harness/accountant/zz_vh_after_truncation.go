//go:build verif

package accountant

// The properties about funds and structure also have to hold across a truncation: the same real truncate as in
// C07 (cut depth shrunk through the harness redirect), on chains with enumerated party patterns (incl. a
// self-transfer) and symbolic amounts (funds) or on every shape with one vertex less than C07 uses (structure).

// VH_C06_after_truncation: the balance of every wallet is the same before and after a truncation.
func VH_C06_after_truncation() { vhTruncFunds("C06/after-truncation", true) }

// VH_C01_after_truncation: the validation verdict of the tip (checkpoint + live history) is the same.
func VH_C01_after_truncation() { vhTruncFunds("C01/after-truncation", true) }

// VH_C02_after_truncation: checkpoints carry exactly the net flow of what was moved (conservation across the cut).
func VH_C02_after_truncation() { vhTruncFunds("C02/after-truncation", true) }

// VH_C09_after_truncation / VH_C03_after_truncation: structure of what stays and what is checkpointed.
func VH_C09_after_truncation() { vhTruncStructure("C09/after-truncation", vhC07StructN()-1) }
func VH_C03_after_truncation() { vhTruncStructure("C03/after-truncation", vhC07StructN()-1) }

// VH_C03_resubmit_after_truncation: a vertex / transaction that a truncation moved to storage is still refused when it
// is offered again by gossip or proposed again locally (replay protection survives the cut).
func VH_C03_resubmit_after_truncation() { vhTruncResubmit("C03/resubmit-after-truncation") }
