//go:build verif

package fileoperations

// C20 (file half): SaveWallet then ReadWallet returns the identical wallet; a truncated, altered or
// arbitrary file, a different key or a malformed password yield an error and the zero wallet, never
// a panic. AES-GCM is the ideal AEAD of DESIGN §2.7; the GOB codec is ideal (assumed, outside).

import (
	"os"

	"github.com/bartossh/Computantis/src/aeswrapper"
	"github.com/bartossh/Computantis/src/verifrt"
	"github.com/bartossh/Computantis/src/wallet"
)

func vhIdealGob() {
	verifrt.Redirect("(*github.com/bartossh/Computantis/src/wallet.Wallet).EncodeGOB", func(w *wallet.Wallet) ([]byte, error) {
		return verifrt.IdealEncode(w), nil
	})
	verifrt.Redirect("github.com/bartossh/Computantis/src/wallet.DecodeGOBWallet", func(data []byte) (wallet.Wallet, error) {
		var w wallet.Wallet
		if err := verifrt.IdealDecode(data, &w); err != nil {
			return wallet.Wallet{}, err
		}
		return w, nil
	})
}

func vhPath() string {
	if verifrt.Native() {
		f, err := os.CreateTemp("", "vh-wallet-*")
		if err != nil {
			panic(err)
		}
		f.Close()
		return f.Name()
	}
	return "/vh/wallet"
}

const (
	vhPw16 = "000102030405060708090a0b0c0d0e0f"
	vhPw32 = "000102030405060708090a0b0c0d0e0f101112131415161718191a1b1c1d1e1f"
)

func vhSameWallet(a, b wallet.Wallet) bool {
	return string(a.Private) == string(b.Private) && string(a.Public) == string(b.Public)
}

func VH_C20_readwallet_flow() {
	vhIdealGob()
	path := vhPath()
	pw := vhPw16
	if verifrt.Choose("pw", 2) == 1 {
		pw = vhPw32
	}
	w, err := wallet.New()
	verifrt.Assert(err == nil, "C20/file/wallet-created")
	h := New(Config{WalletPath: path, WalletPasswd: pw}, aeswrapper.New())
	switch verifrt.Choose("earlier-file", 3) { // what the path holds before the save
	case 1:
		verifrt.Assert(os.WriteFile(path, verifrt.NondetBytes("earlier-short", 0, 8), 0644) == nil, "C20/file/setup")
	case 2: // longer than any wallet file
		verifrt.Assert(os.WriteFile(path, verifrt.NondetBytes("earlier-long", 400, 400), 0644) == nil, "C20/file/setup")
	}
	verifrt.Assert(h.SaveWallet(&w) == nil, "C20/file/saved")
	content, err := os.ReadFile(path)
	verifrt.Assert(err == nil, "C20/file/written")
	switch verifrt.Choose("case", 6) {
	case 0:
		got, err := h.ReadWallet()
		verifrt.Assert(err == nil && vhSameWallet(got, w), "C20/file/roundtrip-identical")
		verifrt.Assert(got.Address() == w.Address(), "C20/file/roundtrip-same-address")
	case 1: // truncated to every shorter length (what a crash during save leaves behind)
		n := verifrt.NondetInt("cut", 0, 64)
		verifrt.Assume(n < len(content))
		verifrt.SetFile(path, content[:n])
		got, err := h.ReadWallet()
		verifrt.Assert(err != nil && len(got.Private) == 0 && len(got.Public) == 0, "C20/file/truncated-is-an-error")
	case 2: // any single byte altered
		i := verifrt.NondetInt("pos", 0, 64)
		verifrt.Assume(i < len(content))
		b := verifrt.NondetU8("newbyte")
		damaged := make([]byte, len(content))
		copy(damaged, content)
		verifrt.Assume(damaged[i] != b)
		damaged[i] = b
		verifrt.SetFile(path, damaged)
		got, err := h.ReadWallet()
		verifrt.Assert(err != nil && len(got.Private) == 0, "C20/file/altered-is-an-error")
	case 3: // arbitrary content
		garbage := verifrt.NondetBytes("garbage", 0, 40)
		verifrt.Assume(string(garbage) != string(content)) // anything but the file that was written
		verifrt.SetFile(path, garbage)
		got, err := h.ReadWallet()
		verifrt.Assert(err != nil && len(got.Private) == 0, "C20/file/garbage-is-an-error")
	case 4: // another key
		other := vhPw32
		if pw == vhPw32 {
			other = vhPw16
		}
		h2 := New(Config{WalletPath: path, WalletPasswd: other}, aeswrapper.New())
		got, err := h2.ReadWallet()
		verifrt.Assert(err != nil && len(got.Private) == 0, "C20/file/wrong-key-is-an-error")
		h3 := New(Config{WalletPath: path, WalletPasswd: "ff" + pw[2:]}, aeswrapper.New())
		_, err = h3.ReadWallet()
		verifrt.Assert(err != nil, "C20/file/one-byte-different-key-is-an-error")
	case 5: // malformed password / missing file
		h2 := New(Config{WalletPath: path, WalletPasswd: "zz"}, aeswrapper.New())
		_, err := h2.ReadWallet()
		verifrt.Assert(err != nil, "C20/file/bad-hex-password-is-an-error")
		h3 := New(Config{WalletPath: path + ".missing", WalletPasswd: pw}, aeswrapper.New())
		_, err = h3.ReadWallet()
		verifrt.Assert(err != nil, "C20/file/missing-file-is-an-error")
	}
	if verifrt.Native() {
		os.Remove(path)
	}
	verifrt.Reach("C20/file/end")
}
