//go:build verif

package aeswrapper

// C20 (aeswrapper half): Decrypt on a file of ANY length 0..48 with a key of any length never
// panics; whatever is not literally an Encrypt output under the same key is an error (ideal AEAD);
// Decrypt(Encrypt(x)) = x for both key sizes.

import (
	"github.com/bartossh/Computantis/src/verifrt"
)

func vhKey(name string) []byte {
	switch verifrt.Choose(name+".len", 4) {
	case 0:
		return verifrt.NondetBytes(name, 16, 16)
	case 1:
		return verifrt.NondetBytes(name, 32, 32)
	case 2:
		return verifrt.NondetBytes(name, 24, 24)
	}
	return verifrt.NondetBytes(name, 0, 15)
}

// VH_C20_decrypt_any_file: arbitrary bytes of arbitrary length: an error, never a panic, never data.
func VH_C20_decrypt_any_file() {
	key := vhKey("key")
	data := verifrt.NondetBytes("file", 0, 48)
	out, err := New().Decrypt(key, data)
	verifrt.Assert(err != nil, "C20/decrypt/garbage-is-an-error")
	verifrt.Assert(out == nil, "C20/decrypt/no-data-on-error")
	verifrt.Reach("C20/decrypt/end")
}

// VH_C20_roundtrip_and_damage: Encrypt then Decrypt gives the plaintext back; every truncation of the
// sealed file, every single-byte change and every other key gives an error.
func VH_C20_roundtrip_and_damage() {
	var key []byte
	if verifrt.Choose("keylen", 2) == 0 {
		key = verifrt.NondetBytes("key", 16, 16)
	} else {
		key = verifrt.NondetBytes("key", 32, 32)
	}
	plain := verifrt.NondetBytes("plain", 0, 8)
	sealed, err := New().Encrypt(key, plain)
	verifrt.Assert(err == nil, "C20/roundtrip/encrypt-succeeds")
	verifrt.Assert(len(sealed) == nonceSize+len(plain)+16, "C20/roundtrip/layout-nonce-ciphertext-tag")
	switch verifrt.Choose("damage", 4) {
	case 0:
		out, err := New().Decrypt(key, sealed)
		verifrt.Assert(err == nil, "C20/roundtrip/decrypt-succeeds")
		verifrt.Assert(string(out) == string(plain), "C20/roundtrip/plaintext-identical")
	case 1: // truncated to any shorter length
		n := verifrt.NondetInt("cut", 0, 35)
		verifrt.Assume(n < len(sealed))
		_, err := New().Decrypt(key, sealed[:n])
		verifrt.Assert(err != nil, "C20/damage/truncated-file-is-an-error")
	case 2: // one byte altered
		i := verifrt.NondetInt("pos", 0, 35)
		verifrt.Assume(i < len(sealed))
		b := verifrt.NondetU8("newbyte")
		damaged := make([]byte, len(sealed))
		copy(damaged, sealed)
		verifrt.Assume(damaged[i] != b)
		damaged[i] = b
		_, err := New().Decrypt(key, damaged)
		verifrt.Assert(err != nil, "C20/damage/altered-file-is-an-error")
	case 3: // another key of the same size
		other := verifrt.NondetBytes("other", len(key), len(key))
		verifrt.Assume(string(other) != string(key))
		_, err := New().Decrypt(other, sealed)
		verifrt.Assert(err != nil, "C20/damage/wrong-key-is-an-error")
	}
	verifrt.Reach("C20/roundtrip/end")
}

// VH_C20_bad_key_length: keys that are not 16 or 32 bytes are refused by both directions.
func VH_C20_bad_key_length() {
	key := verifrt.NondetBytes("key", 0, 40)
	verifrt.Assume(len(key) != 16 && len(key) != 32)
	_, e1 := New().Encrypt(key, []byte{1, 2, 3})
	_, e2 := New().Decrypt(key, verifrt.NondetBytes("file", 0, 40))
	verifrt.Assert(e1 == ErrInvalidKeyLength && e2 == ErrInvalidKeyLength, "C20/key/length-checked")
	verifrt.Reach("C20/key/end")
}
