//go:build verif

package notaryserver

// C16: contracts need the receiver; reads need proof of key ownership. The real handlers run over the
// real cache.Hippocampus (bigcache model), the real dataprovider.Cache and the real wallet.Helper
// under idealised cryptography; the ledger is a double that seals every transaction at most once and
// records who asked. Every call sequence of length <= 3 (quick) / 4 (thorough) from a menu of honest
// and dishonest calls is explored against a reference state machine.

import (
	"context"
	"crypto/sha256"
	"time"

	"github.com/bartossh/Computantis/src/accountant"
	"github.com/bartossh/Computantis/src/cache"
	"github.com/bartossh/Computantis/src/dataprovider"
	"github.com/bartossh/Computantis/src/protobufcompiled"
	"github.com/bartossh/Computantis/src/spice"
	"github.com/bartossh/Computantis/src/transaction"
	"github.com/bartossh/Computantis/src/transformers"
	"github.com/bartossh/Computantis/src/verifrt"
	"github.com/bartossh/Computantis/src/wallet"
)

type vhLedger struct {
	sealed map[[32]byte]int
	bal    spice.Melange
}

func (l *vhLedger) Address() string { return "NODE" }
func (l *vhLedger) CreateLeaf(ctx context.Context, trx *transaction.Transaction) (accountant.Vertex, error) {
	if l.sealed[trx.Hash] > 0 {
		return accountant.Vertex{}, accountant.ErrTrxInVertexAlreadyExists
	}
	l.sealed[trx.Hash]++
	return accountant.Vertex{Transaction: *trx}, nil
}
func (l *vhLedger) ReadTransactionByHash(ctx context.Context, h [32]byte) (transaction.Transaction, error) {
	return transaction.Transaction{}, errVH
}
func (l *vhLedger) ReadDAGTransactionsByAddress(ctx context.Context, address string) ([]transaction.Transaction, error) {
	return nil, nil
}
func (l *vhLedger) CalculateBalance(ctx context.Context, addr string) (accountant.Balance, error) {
	return accountant.Balance{WalletPublicAddress: addr, Spice: l.bal}, nil
}

type vhOpenPipe struct{}

func (vhOpenPipe) SendTrx(trx *protobufcompiled.Transaction) bool { return true }
func (vhOpenPipe) SendVrx(vrx *accountant.Vertex) bool             { return true }

type vhQuietFlash struct{}

func (vhQuietFlash) HasAddress(a string) (bool, error) { return false, nil }
func (vhQuietFlash) RemoveAddress(a string) error      { return nil }

type vhC16 struct {
	s          *server
	led        *vhLedger
	i, r, x    wallet.Wallet // issuer, receiver, stranger
	contract   transaction.Transaction
	transfer   transaction.Transaction
	awaiting   bool // reference state: the contract is awaiting the receiver
	challengeR []byte
	captured   *protobufcompiled.SignedHash // a genuine Waiting request of the receiver, seen by an eavesdropper
}

func vhSignedTrx(w *wallet.Wallet, rcv string, data []byte, n int64) transaction.Transaction {
	t := transaction.Transaction{CreatedAt: time.Unix(1700000000, n), IssuerAddress: w.Address(), ReceiverAddress: rcv, Subject: "s", Data: data, Spice: spice.New(1, uint64(n))}
	t.Hash, t.IssuerSignature = w.Sign(t.GetMessage())
	return t
}

func vhC16Setup() *vhC16 {
	c := &vhC16{}
	c.i, _ = wallet.New()
	c.r, _ = wallet.New()
	c.x, _ = wallet.New()
	verifrt.HonestKey(c.i.Public)
	verifrt.HonestKey(c.r.Public)
	h, err := cache.New(4096, 8)
	if err != nil {
		panic(err)
	}
	c.led = &vhLedger{sealed: map[[32]byte]int{}, bal: spice.New(7, 7)}
	c.s = &server{randDataProv: dataprovider.New(context.Background(), dataprovider.Config{Longevity: 600}), tele: vhTele{}, log: vhLog{},
		verifier: wallet.NewVerifier(), acc: c.led, cache: h, flash: vhQuietFlash{}, piper: vhOpenPipe{}, nodePublicURL: "u", dataSize: 2048}
	c.contract = vhSignedTrx(&c.i, c.r.Address(), []byte{1, 2}, 1)
	c.transfer = vhSignedTrx(&c.i, c.r.Address(), nil, 2)
	return c
}

func vhProto(t transaction.Transaction) *protobufcompiled.Transaction {
	p, err := transformers.TrxToProtoTrx(t)
	if err != nil {
		panic(err)
	}
	return p
}

func vhSignedHashBy(w *wallet.Wallet, addr string, data []byte) *protobufcompiled.SignedHash {
	d, sig := w.Sign(data)
	return &protobufcompiled.SignedHash{Address: addr, Data: data, Hash: d[:], Signature: sig}
}

// vhCall performs one call of the menu and checks it against the reference state machine.
func (c *vhC16) vhCall(step string) {
	ctx := context.Background()
	h := c.contract.Hash
	sealedBefore := c.led.sealed[h]
	switch verifrt.Choose(step, 15) {
	case 0: // issuer proposes the contract
		_, err := c.s.Propose(ctx, vhProto(c.contract))
		if err == nil {
			verifrt.Assert(!c.awaiting && sealedBefore == 0 || true, "C16/propose/accepted")
			c.awaiting = true
		}
		verifrt.Assert(c.led.sealed[h] == sealedBefore, "C16/propose/contract-is-not-sealed-by-the-issuer-alone")
	case 1: // issuer proposes a plain transfer: sealed at once on the issuer signature
		before := c.led.sealed[c.transfer.Hash]
		_, err := c.s.Propose(ctx, vhProto(c.transfer))
		verifrt.Assert(c.led.sealed[c.transfer.Hash] <= 1 && (err != nil || before == 0), "C16/propose/transfer-sealed-at-most-once")
	case 2: // a proposal whose issuer signature is by the stranger's key
		forged := c.contract
		_, forged.IssuerSignature = c.x.Sign(forged.GetMessage())
		_, err := c.s.Propose(ctx, vhProto(forged))
		verifrt.Assert(err != nil, "C16/propose/wrong-issuer-key-refused")
		verifrt.Assert(c.led.sealed[h] == sealedBefore, "C16/propose/refused-proposal-seals-nothing")
	case 3: // the receiver confirms with a genuine countersignature
		t := c.contract
		_, t.ReceiverSignature = c.r.Sign(t.GetMessage())
		_, err := c.s.Confirm(ctx, vhProto(t))
		if c.awaiting {
			// (a contract re-proposed after it was sealed is refused by the ledger at this point)
			verifrt.Assert((err == nil) == (sealedBefore == 0) && c.led.sealed[h] == 1, "C16/confirm/receiver-confirmation-seals-once")
			c.awaiting = false
		} else {
			verifrt.Assert(err != nil && c.led.sealed[h] == sealedBefore, "C16/confirm/nothing-awaiting-nothing-sealed")
		}
	case 4: // a confirmation countersigned by the stranger
		t := c.contract
		_, t.ReceiverSignature = c.x.Sign(t.GetMessage())
		_, err := c.s.Confirm(ctx, vhProto(t))
		verifrt.Assert(err != nil && c.led.sealed[h] == sealedBefore, "C16/confirm/wrong-receiver-key-refused")
		c.vhStillAwaiting("C16/confirm/refused-confirmation-keeps-it-awaiting")
	case 14: // the issuer "confirms" its own contract by attaching a copy of its own signature
		t := c.contract
		t.ReceiverSignature = append([]byte{}, t.IssuerSignature...)
		_, err := c.s.Confirm(ctx, vhProto(t))
		verifrt.Assert(err != nil && c.led.sealed[h] == sealedBefore, "C16/confirm/copy-of-issuer-signature-refused")
		c.vhStillAwaiting("C16/confirm/copied-signature-keeps-it-awaiting")
	case 12: // a confirmation carrying ANY 64 bytes other than the receiver's genuine countersignature
		// (a copy of the issuer's signature, another wallet's signature, garbage ...)
		t := c.contract
		_, genuine := c.r.Sign(t.GetMessage())
		t.ReceiverSignature = verifrt.NondetBytes("forged-countersignature", 64, 64)
		verifrt.Assume(string(t.ReceiverSignature) != string(genuine))
		_, err := c.s.Confirm(ctx, vhProto(t))
		verifrt.Assert(err != nil && c.led.sealed[h] == sealedBefore, "C16/confirm/wrong-receiver-key-refused")
		c.vhStillAwaiting("C16/confirm/refused-confirmation-keeps-it-awaiting")
	case 5: // the receiver rejects (signs the transaction hash)
		_, err := c.s.Reject(ctx, vhSignedHashBy(&c.r, c.r.Address(), h[:]))
		if c.awaiting {
			verifrt.Assert((err == nil) == (sealedBefore == 0) && c.led.sealed[h] == 1, "C16/reject/receiver-rejection-seals-once")
			c.awaiting = false
		} else {
			verifrt.Assert(err != nil && c.led.sealed[h] == sealedBefore, "C16/reject/nothing-awaiting-nothing-sealed")
		}
	case 6: // the stranger rejects under its own address
		_, err := c.s.Reject(ctx, vhSignedHashBy(&c.x, c.x.Address(), h[:]))
		verifrt.Assert(err != nil && c.led.sealed[h] == sealedBefore, "C16/reject/only-the-receiver-rejects")
		c.vhStillAwaiting("C16/reject/refused-rejection-keeps-it-awaiting")
	case 7: // the stranger rejects naming the receiver's address (signature by the wrong key)
		_, err := c.s.Reject(ctx, vhSignedHashBy(&c.x, c.r.Address(), h[:]))
		verifrt.Assert(err != nil && c.led.sealed[h] == sealedBefore, "C16/reject/wrong-key-refused")
		c.vhStillAwaiting("C16/reject/forged-rejection-keeps-it-awaiting")
	case 8: // the receiver fetches a challenge and lists its awaiting transactions
		blob, err := c.s.Data(ctx, &protobufcompiled.Address{Public: c.r.Address()})
		verifrt.Assert(err == nil, "C16/data/challenge-issued")
		c.challengeR = blob.Blob
		req := vhSignedHashBy(&c.r, c.r.Address(), blob.Blob)
		c.captured = req
		out, err := c.s.Waiting(ctx, req)
		if c.awaiting {
			verifrt.Assert(err == nil && len(out.Array) == 1, "C16/waiting/owner-sees-the-awaiting-contract")
		}
	case 9: // the stranger replays the receiver's challenge signed with its own key
		if c.challengeR == nil {
			return
		}
		_, err := c.s.Waiting(ctx, vhSignedHashBy(&c.x, c.r.Address(), c.challengeR))
		verifrt.Assert(err != nil, "C16/waiting/challenge-signed-by-another-key-refused")
	case 13: // a captured genuine request replayed after the server issued a new challenge for that address
		if c.captured == nil {
			return
		}
		again, err := c.s.Data(ctx, &protobufcompiled.Address{Public: c.r.Address()})
		verifrt.Assert(err == nil, "C16/data/challenge-reissued")
		_ = again // (the model's random source never repeats a 128-byte string)
		_, err = c.s.Waiting(ctx, c.captured)
		verifrt.Assert(err != nil, "C16/waiting/stale-challenge-refused-after-reissue")
		_, err = c.s.TransactionsInDAG(ctx, c.captured)
		verifrt.Assert(err != nil, "C16/history/stale-challenge-refused-after-reissue")
	case 10: // the stranger presents a challenge the server never issued for that address
		fake := verifrt.NondetBytes("fake-challenge", 128, 128)
		_, err := c.s.Waiting(ctx, vhSignedHashBy(&c.x, c.x.Address(), fake))
		verifrt.Assert(err != nil, "C16/waiting/unissued-challenge-refused")
		_, err = c.s.TransactionsInDAG(ctx, vhSignedHashBy(&c.x, c.x.Address(), fake))
		verifrt.Assert(err != nil, "C16/history/unissued-challenge-refused")
	case 11: // balance: the owner reads, then the stranger asks for the owner's balance
		out, err := c.s.Balance(ctx, vhSignedHashBy(&c.r, c.r.Address(), []byte(c.r.Address())))
		verifrt.Assert(err == nil && out.Currency == 7, "C16/balance/owner-reads")
		verifrt.Quiesce() // the handler caches the balance in a goroutine
		_, err = c.s.Balance(ctx, vhSignedHashBy(&c.x, c.r.Address(), []byte(c.r.Address())))
		verifrt.Assert(err != nil, "C16/balance/another-key-refused-even-when-cached")
		d := sha256.Sum256([]byte(c.r.Address()))
		garbage := verifrt.NondetBytes("garbage-signature", 64, 64)
		_, genuine := c.r.Sign([]byte(c.r.Address()))
		// the balance request is static (the address signs itself), so a captured genuine request can be
		// replayed: only signatures other than the genuine one are required to fail
		verifrt.Assume(string(garbage) != string(genuine))
		_, err = c.s.Balance(ctx, &protobufcompiled.SignedHash{Address: c.r.Address(), Data: []byte(c.r.Address()), Hash: d[:], Signature: garbage})
		verifrt.Assert(err != nil, "C16/balance/garbage-signature-refused")
	}
	verifrt.Quiesce()
	verifrt.Assert(c.led.sealed[h] <= 1, "C16/sealed-at-most-once")
}

// vhStillAwaiting: after a refused call the contract is still listed for its receiver iff it was before.
func (c *vhC16) vhStillAwaiting(id string) {
	trxs, err := c.s.cache.ReadTransactions(c.r.Address())
	n := 0
	if err == nil {
		for _, t := range trxs {
			if t.Hash == c.contract.Hash {
				n++
			}
		}
	}
	if c.awaiting {
		verifrt.Assert(n == 1, id)
	} else {
		verifrt.Assert(n == 0, id)
	}
}

func VH_C16_sequences() {
	c := vhC16Setup()
	steps := 3
	if verifrt.Thorough() {
		steps = 4
	}
	// the interesting pre-state: the contract was proposed
	if verifrt.Choose("start-proposed", 2) == 1 {
		_, err := c.s.Propose(context.Background(), vhProto(c.contract))
		verifrt.Assert(err == nil, "C16/setup/proposed")
		c.awaiting = true
	}
	for k := 0; k < steps; k++ {
		c.vhCall("call" + verifrt.Itoa(k))
	}
	verifrt.Reach("C16/sequences/end")
}
