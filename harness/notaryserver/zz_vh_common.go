//go:build verif

package notaryserver

// Test doubles for the notary server's collaborators. Every double answers nondeterministically
// (so every branch of a handler is reachable) and counts state-changing calls.

import (
	"context"
	"errors"
	"time"

	"github.com/bartossh/Computantis/src/accountant"
	"github.com/bartossh/Computantis/src/cache"
	"github.com/bartossh/Computantis/src/protobufcompiled"
	"github.com/bartossh/Computantis/src/spice"
	"github.com/bartossh/Computantis/src/transaction"
	"github.com/bartossh/Computantis/src/verifrt"
)

var errVH = errors.New("vh: refused")

type vhWorld struct {
	mutations   int // state-changing calls on ledger / cache / flash / pipe
	verifyFails int // verifications or challenge validations that failed
	verifyCalls int
	lastFail    string // which collaborator refused last
}

type vhVerifier struct{ w *vhWorld }

func (v vhVerifier) Verify(message, signature []byte, hash [32]byte, address string) error {
	v.w.verifyCalls++
	if verifrt.NondetBool("verify.ok") {
		return nil
	}
	v.w.verifyFails++
	return errVH
}

type vhAcc struct{ w *vhWorld }

func (a vhAcc) Address() string { return "N" }
func (a vhAcc) CreateLeaf(ctx context.Context, trx *transaction.Transaction) (accountant.Vertex, error) {
	a.w.mutations++
	if verifrt.NondetBool("createleaf.ok") {
		return accountant.Vertex{Transaction: *trx}, nil
	}
	a.w.mutations-- // a refused proposal leaves the ledger unchanged
	a.w.lastFail = "ledger-refused-the-leaf"
	return accountant.Vertex{}, errVH
}
func (a vhAcc) ReadTransactionByHash(ctx context.Context, h [32]byte) (transaction.Transaction, error) {
	switch verifrt.Choose("readtrx", 3) {
	case 0:
		return transaction.Transaction{}, errVH
	case 1:
		return transaction.Transaction{}, nil // zero transaction, nil error
	}
	return vhSomeTrx(), nil
}
func (a vhAcc) ReadDAGTransactionsByAddress(ctx context.Context, address string) ([]transaction.Transaction, error) {
	switch verifrt.Choose("readdag", 3) {
	case 0:
		return nil, errVH
	case 1:
		return nil, nil
	}
	return []transaction.Transaction{vhSomeTrx(), {}}, nil
}
func (a vhAcc) CalculateBalance(ctx context.Context, addr string) (accountant.Balance, error) {
	if verifrt.NondetBool("balance.ok") {
		return accountant.Balance{Spice: spice.New(1, 2)}, nil
	}
	return accountant.Balance{}, errVH
}

func vhSomeTrx() transaction.Transaction {
	t := transaction.Transaction{CreatedAt: time.Unix(1700000000, 5), IssuerAddress: "I", ReceiverAddress: "R", Subject: "s",
		Data: []byte{1}, IssuerSignature: []byte{2}, Spice: spice.New(3, 4)}
	t.Hash[0] = 9
	return t
}

type vhCacheD struct{ w *vhWorld }

func (c vhCacheD) SaveAwaitedTransaction(trx *transaction.Transaction) error {
	c.w.mutations++
	if verifrt.NondetBool("cache.save.ok") {
		return nil
	}
	c.w.mutations--
	c.w.lastFail = "cache-refused-the-save"
	return errVH
}
func (c vhCacheD) RemoveAwaitedTransaction(hash [32]byte, address string) (transaction.Transaction, error) {
	switch verifrt.Choose("cache.remove", 3) {
	case 0:
		return transaction.Transaction{}, cache.ErrTransactionNotFound // nothing changed
	case 1:
		return transaction.Transaction{}, cache.ErrUnauthorized // nothing changed
	}
	c.w.mutations++
	return vhSomeTrx(), nil
}
func (c vhCacheD) ReadTransactions(address string) ([]transaction.Transaction, error) {
	switch verifrt.Choose("cache.read", 3) {
	case 0:
		return nil, errVH
	case 1:
		return nil, nil
	}
	return []transaction.Transaction{vhSomeTrx(), {}}, nil
}
func (c vhCacheD) SaveBalance(a string, s spice.Melange) error { c.w.mutations++; return nil }
func (c vhCacheD) ReadBalance(a string) (spice.Melange, error) {
	if verifrt.NondetBool("cache.balance.hit") {
		return spice.New(5, 6), nil
	}
	return spice.Melange{}, errVH
}
func (c vhCacheD) RemoveBalance(a string) error { c.w.mutations++; return nil }

type vhFlashD struct{ w *vhWorld }

func (f vhFlashD) HasAddress(a string) (bool, error) {
	switch verifrt.Choose("flash.has", 3) {
	case 0:
		return false, errVH
	case 1:
		return true, nil
	}
	return false, nil
}
func (f vhFlashD) RemoveAddress(a string) error { f.w.mutations++; return nil }

type vhPiperD struct{ w *vhWorld }

func (p vhPiperD) SendTrx(trx *protobufcompiled.Transaction) bool {
	if verifrt.NondetBool("pipe.trx.ok") {
		p.w.mutations++
		return true
	}
	p.w.lastFail = "gossip-pipe-closed"
	return false
}
func (p vhPiperD) SendVrx(vrx *accountant.Vertex) bool {
	if verifrt.NondetBool("pipe.vrx.ok") {
		p.w.mutations++
		return true
	}
	p.w.lastFail = "gossip-pipe-closed"
	return false
}

type vhTele struct{}

func (vhTele) CreateUpdateObservableHistogram(name, description string) {}
func (vhTele) RecordHistogramTime(name string, t time.Duration) bool    { return true }
func (vhTele) RecordHistogramValue(name string, f float64) bool         { return true }

type vhLog struct{}

func (vhLog) Debug(string) {}
func (vhLog) Info(string)  {}
func (vhLog) Warn(string)  {}
func (vhLog) Error(string) {}
func (vhLog) Fatal(string) {}

type vhRand struct{ w *vhWorld }

func (r vhRand) ProvideData(address string) []byte { return []byte{1, 2, 3} }
func (r vhRand) ValidateData(address string, data []byte) bool {
	if verifrt.NondetBool("challenge.ok") {
		return true
	}
	r.w.verifyFails++
	return false
}

func vhServer() (*server, *vhWorld) {
	w := &vhWorld{}
	return &server{
		randDataProv: vhRand{w}, tele: vhTele{}, log: vhLog{}, verifier: vhVerifier{w}, acc: vhAcc{w},
		cache: vhCacheD{w}, flash: vhFlashD{w}, piper: vhPiperD{w}, nodePublicURL: "u", dataSize: 2048,
	}, w
}

// ---- symbolic request shapes: what the protobuf decoder can hand to a handler ----

// vhBytes: a bytes field of any length 0..max with arbitrary content (an absent field decodes as
// length 0; the handlers never compare bytes fields with nil, so nil and empty are one case).
func vhBytes(name string, max int) []byte {
	return verifrt.NondetBytes(name, 0, max)
}

func vhSignedHash() *protobufcompiled.SignedHash {
	return &protobufcompiled.SignedHash{
		Address:   verifrt.NondetString("address", 0, 1),
		Data:      vhBytes("data", 40),
		Hash:      vhBytes("hash", 40),
		Signature: vhBytes("signature", 1),
	}
}

func vhProtoTrx() *protobufcompiled.Transaction {
	t := &protobufcompiled.Transaction{
		Subject:           verifrt.NondetString("subject", 0, 1),
		Data:              vhBytes("data", 1),
		Hash:              vhBytes("hash", 40),
		CreatedAt:         verifrt.NondetU64("created"),
		ReceiverAddress:   verifrt.NondetString("receiver", 0, 1),
		IssuerAddress:     verifrt.NondetString("issuer", 0, 1),
		ReceiverSignature: vhBytes("rsig", 1),
		IssuerSignature:   vhBytes("isig", 1),
	}
	if verifrt.Choose("spice.present", 2) == 1 {
		t.Spice = &protobufcompiled.Spice{Currency: verifrt.NondetU64("cur"), SupplementaryCurrency: verifrt.NondetU64("sup")}
	}
	return t
}

// vhAfter: the common post-conditions of a handler call.
func vhAfter(w *vhWorld, name string, err error, mutBefore int) {
	if err != nil && w.verifyFails > 0 {
		verifrt.Assert(w.mutations == mutBefore, "C15/notary/"+name+"/refused-for-verification-changes-nothing")
	}
	if err != nil && w.verifyFails == 0 && w.mutations != mutBefore {
		// rejected after every check passed but after state was already changed
		verifrt.Assert(false, "C15/notary/"+name+"/rejected-after-mutation/"+w.lastFail)
	}
	verifrt.Reach("C15/notary/" + name + "/end")
}
