//go:build verif

package notaryserver

// C15 (notary API): every RPC on every request shape the protobuf decoder can produce - absent or
// empty or short or long bytes fields (lengths 0..40, 32 being the hash size), absent sub-messages -
// returns a response or an error without panicking; a request refused at a verification step has
// changed nothing.

import (
	"context"

	"google.golang.org/protobuf/types/known/emptypb"

	"github.com/bartossh/Computantis/src/protobufcompiled"
	"github.com/bartossh/Computantis/src/verifrt"
)

func VH_C15_notary_alive() {
	s, w := vhServer()
	out, err := s.Alive(context.Background(), &emptypb.Empty{})
	verifrt.Assert(err == nil && out != nil, "C15/notary/alive/answers")
	vhAfter(w, "alive", err, 0)
}

func VH_C15_notary_propose() {
	verifrt.CheckLeaks(true)
	s, w := vhServer()
	var in *protobufcompiled.Transaction
	if verifrt.Choose("request.nil", 2) == 1 {
		in = vhProtoTrx()
	}
	_, err := s.Propose(context.Background(), in)
	vhAfter(w, "propose", err, 0)
}

func VH_C15_notary_confirm() {
	verifrt.CheckLeaks(true)
	s, w := vhServer()
	_, err := s.Confirm(context.Background(), vhProtoTrx())
	vhAfter(w, "confirm", err, 0)
}

func VH_C15_notary_reject() {
	verifrt.CheckLeaks(true)
	s, w := vhServer()
	_, err := s.Reject(context.Background(), vhSignedHash())
	vhAfter(w, "reject", err, 0)
}

func VH_C15_notary_waiting() {
	s, w := vhServer()
	_, err := s.Waiting(context.Background(), vhSignedHash())
	vhAfter(w, "waiting", err, 0)
}

func VH_C15_notary_saved() {
	s, w := vhServer()
	_, err := s.Saved(context.Background(), vhSignedHash())
	vhAfter(w, "saved", err, 0)
}

func VH_C15_notary_data() {
	s, w := vhServer()
	_, err := s.Data(context.Background(), &protobufcompiled.Address{Public: verifrt.NondetString("public", 0, 2)})
	vhAfter(w, "data", err, 0)
}

func VH_C15_notary_balance() {
	verifrt.CheckLeaks(true)
	s, w := vhServer()
	_, err := s.Balance(context.Background(), vhSignedHash())
	vhAfter(w, "balance", err, 0)
}

func VH_C15_notary_transactions_in_dag() {
	s, w := vhServer()
	_, err := s.TransactionsInDAG(context.Background(), vhSignedHash())
	vhAfter(w, "transactions-in-dag", err, 0)
}
