//go:build verif

package verifrt

// Go-source models of crypto/aes + crypto/cipher GCM (ideal AEAD, DESIGN §2.7), io.ReadFull on the
// random source, and helpers for the per-run file table. Natively none of the Model* functions run.

import (
	"crypto/aes"
	"crypto/cipher"
	"errors"
	"io"
	"os"
)

// leaf intrinsics (engine side: crypto.go)
func modelGCMSeal(key, nonce, plaintext []byte) []byte         { panic("engine only") }
func modelGCMOpen(key, nonce, ciphertext []byte) ([]byte, bool) { panic("engine only") }
func modelRandFill(b []byte)                                     { panic("engine only") }

// IdealEncode / IdealDecode: the ideal codec (Decode(Encode(x)) = x, everything else is an error).
func IdealEncode(v any) []byte              { panic("engine only") }
func IdealDecode(data []byte, dst any) error { panic("engine only") }

// HonestKey declares that the adversary does not hold the private key of pub: under the symbolic
// executor only signatures produced by ed25519.Sign during the run verify under it
// (unforgeability, DESIGN §2.7). Natively a no-op: real signatures are used.
func HonestKey(pub []byte) {}

// SetFile makes path readable with the given content (engine: file table; natively a real file).
func SetFile(path string, content []byte) {
	if err := os.WriteFile(path, content, 0o600); err != nil {
		panic(err)
	}
}

type ModelBlock struct{ key []byte }

func (b *ModelBlock) BlockSize() int          { return 16 }
func (b *ModelBlock) Encrypt(dst, src []byte) { panic("verifrt: raw block encryption is not modelled") }
func (b *ModelBlock) Decrypt(dst, src []byte) { panic("verifrt: raw block decryption is not modelled") }

func ModelAESNewCipher(key []byte) (cipher.Block, error) {
	switch len(key) {
	case 16, 24, 32:
	default:
		return nil, aes.KeySizeError(len(key))
	}
	k := make([]byte, len(key))
	copy(k, key)
	return &ModelBlock{key: k}, nil
}

type ModelAEAD struct{ key []byte }

var errModelOpen = errors.New("cipher: message authentication failed")

func (a *ModelAEAD) NonceSize() int { return 12 }
func (a *ModelAEAD) Overhead() int  { return 16 }
func (a *ModelAEAD) Seal(dst, nonce, plaintext, additionalData []byte) []byte {
	if len(nonce) != 12 {
		panic("crypto/cipher: incorrect nonce length given to GCM")
	}
	return append(dst, modelGCMSeal(a.key, nonce, plaintext)...)
}
func (a *ModelAEAD) Open(dst, nonce, ciphertext, additionalData []byte) ([]byte, error) {
	if len(nonce) != 12 {
		panic("crypto/cipher: incorrect nonce length given to GCM")
	}
	if len(ciphertext) < 16 {
		return nil, errModelOpen
	}
	pt, ok := modelGCMOpen(a.key, nonce, ciphertext)
	if !ok {
		return nil, errModelOpen
	}
	return append(dst, pt...), nil
}

func ModelNewGCM(b cipher.Block) (cipher.AEAD, error) {
	mb, ok := b.(*ModelBlock)
	if !ok {
		return nil, errors.New("verifrt: NewGCM on a non-model block")
	}
	return &ModelAEAD{key: mb.key}, nil
}

// ModelReadFull replaces io.ReadFull for the random source: fills buf with fresh symbolic bytes.
func ModelReadFull(r io.Reader, buf []byte) (int, error) {
	modelRandFill(buf)
	return len(buf), nil
}
