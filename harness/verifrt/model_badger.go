//go:build verif

package verifrt

// Go-source model of the badger API surface used by the repository (DESIGN §2.6):
// an ordered-by-insertion key -> bytes map per DB; Update(fn) applies fn to the live map
// and rolls back when fn returns an error; every Update/View is one atomic step
// (a scheduling point at entry, none inside). ErrConflict is not modelled.

import (
	"io"

	"github.com/dgraph-io/badger/v4"
)

type ModelDB struct {
	m map[string][]byte
}

type modelTxnState struct {
	db     *ModelDB
	update bool
}

type modelItemState struct {
	key []byte
	val []byte
}

type modelIterState struct {
	txn  *modelTxnState
	keys []string
	pos  int
	cur  *badger.Item
}

// engine intrinsics (side table keyed by pointer identity)
func modelAttach(p any, st any)  {}
func modelAttached(p any) any    { return nil }

// NewDB returns an empty database: natively a real in-memory badger, under the
// engine a model object.
func NewDB() *badger.DB {
	db, err := badger.Open(badger.DefaultOptions("").WithInMemory(true).WithLoggingLevel(badger.ERROR))
	if err != nil {
		panic(err)
	}
	return db
}

func ModelNewDB() *badger.DB {
	db := new(badger.DB)
	modelAttach(db, &ModelDB{m: map[string][]byte{}})
	return db
}

func modelDBOf(db *badger.DB) *ModelDB {
	st, _ := modelAttached(db).(*ModelDB)
	if st == nil {
		panic("verifrt: badger.DB without model state (construct it with verifrt.NewDB)")
	}
	return st
}

func modelTxnOf(txn *badger.Txn) *modelTxnState {
	st, _ := modelAttached(txn).(*modelTxnState)
	if st == nil {
		panic("verifrt: badger.Txn without model state")
	}
	return st
}

func modelRunTxn(db *badger.DB, update bool, fn func(txn *badger.Txn) error) error {
	SyncPoint()
	st := modelDBOf(db)
	var snapshot map[string][]byte
	if update {
		snapshot = make(map[string][]byte, len(st.m))
		for k, v := range st.m {
			snapshot[k] = v
		}
	}
	txn := new(badger.Txn)
	modelAttach(txn, &modelTxnState{db: st, update: update})
	err := fn(txn)
	if err != nil && update {
		st.m = snapshot
	}
	return err
}

func ModelDBUpdate(db *badger.DB, fn func(txn *badger.Txn) error) error {
	return modelRunTxn(db, true, fn)
}

func ModelDBView(db *badger.DB, fn func(txn *badger.Txn) error) error {
	return modelRunTxn(db, false, fn)
}

func ModelDBBackup(db *badger.DB, w io.Writer, since uint64) (uint64, error) { return since, nil }
func ModelDBClose(db *badger.DB) error                                         { return nil }
func ModelDBRunValueLogGC(db *badger.DB, discardRatio float64) error           { return badger.ErrNoRewrite }

func modelNewItem(key string, val []byte) *badger.Item {
	it := new(badger.Item)
	modelAttach(it, &modelItemState{key: []byte(key), val: val})
	return it
}

func ModelTxnGet(txn *badger.Txn, key []byte) (*badger.Item, error) {
	st := modelTxnOf(txn)
	if len(key) == 0 {
		return nil, badger.ErrEmptyKey
	}
	v, ok := st.db.m[string(key)]
	if !ok {
		return nil, badger.ErrKeyNotFound
	}
	return modelNewItem(string(key), v), nil
}

func ModelTxnSet(txn *badger.Txn, key, val []byte) error {
	st := modelTxnOf(txn)
	if !st.update {
		return badger.ErrReadOnlyTxn
	}
	if len(key) == 0 {
		return badger.ErrEmptyKey
	}
	st.db.m[string(key)] = val
	return nil
}

type modelEntryState struct{ key, val []byte }

func ModelNewEntry(key, value []byte) *badger.Entry {
	return &badger.Entry{Key: key, Value: value}
}

func ModelTxnSetEntry(txn *badger.Txn, e *badger.Entry) error {
	return ModelTxnSet(txn, e.Key, e.Value)
}

func ModelTxnDelete(txn *badger.Txn, key []byte) error {
	st := modelTxnOf(txn)
	if !st.update {
		return badger.ErrReadOnlyTxn
	}
	if len(key) == 0 {
		return badger.ErrEmptyKey
	}
	delete(st.db.m, string(key))
	return nil
}

func ModelTxnDiscard(txn *badger.Txn) {}

func modelItemOf(it *badger.Item) *modelItemState {
	st, _ := modelAttached(it).(*modelItemState)
	if st == nil {
		panic("verifrt: badger.Item without model state")
	}
	return st
}

func ModelItemKey(it *badger.Item) []byte { return modelItemOf(it).key }
func ModelItemValue(it *badger.Item, fn func(val []byte) error) error {
	return fn(modelItemOf(it).val)
}
func ModelItemValueCopy(it *badger.Item, dst []byte) ([]byte, error) {
	return append(dst[:0], modelItemOf(it).val...), nil
}

func ModelTxnNewIterator(txn *badger.Txn, opt badger.IteratorOptions) *badger.Iterator {
	st := modelTxnOf(txn)
	it := new(badger.Iterator)
	is := &modelIterState{txn: st}
	for k := range st.db.m {
		is.keys = append(is.keys, k)
	}
	modelAttach(it, is)
	return it
}

func modelIterOf(it *badger.Iterator) *modelIterState {
	st, _ := modelAttached(it).(*modelIterState)
	if st == nil {
		panic("verifrt: badger.Iterator without model state")
	}
	return st
}

func ModelIterClose(it *badger.Iterator)             {}
func ModelIterSeek(it *badger.Iterator, key []byte)  { modelIterOf(it).pos = 0 }
func ModelIterRewind(it *badger.Iterator)            { modelIterOf(it).pos = 0 }
func ModelIterNext(it *badger.Iterator)              { modelIterOf(it).pos++ }
func ModelIterValid(it *badger.Iterator) bool {
	is := modelIterOf(it)
	return is.pos < len(is.keys)
}
func ModelIterValidForPrefix(it *badger.Iterator, prefix []byte) bool {
	// only the empty prefix is used by the repository
	return ModelIterValid(it)
}
func ModelIterItem(it *badger.Iterator) *badger.Item {
	is := modelIterOf(it)
	k := is.keys[is.pos]
	return modelNewItem(k, is.txn.db.m[k])
}
