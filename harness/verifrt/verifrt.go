//go:build verif

// Package verifrt is the harness runtime of the /verif machinery. Under the
// symbolic executor (gosym) the functions below are intercepted: Nondet* yield
// fresh symbolic values, Assume/Assert/Reach talk to the solver. Natively (replay
// of a counterexample with `go test -tags verif -overlay ...`) they read the
// recorded values from the file named by $VERIF_REPLAY and check assertions with
// ordinary Go semantics against the real libraries.
package verifrt

import (
	"encoding/hex"
	"encoding/json"
	"fmt"
	"math/big"
	"os"
	"strconv"
	"time"
)

type replayEntry struct {
	Name string `json:"name"`
	Kind string `json:"kind"`
	Val  string `json:"val"`
}

type replayFile struct {
	Harness   string        `json:"harness"`
	Assertion string        `json:"assertion"`
	Nondet    []replayEntry `json:"nondet"`
}

var (
	replay    *replayFile
	replayPos int
	// Failed collects assertion ids that failed natively.
	Failed []string
)

type stopReplay struct{ why string }

func load() {
	if replay != nil {
		return
	}
	replay = &replayFile{}
	p := os.Getenv("VERIF_REPLAY")
	if p == "" {
		return
	}
	buf, err := os.ReadFile(p)
	if err != nil {
		fmt.Println("VH-REPLAY-ERROR cannot read", p, err)
		return
	}
	if err := json.Unmarshal(buf, replay); err != nil {
		fmt.Println("VH-REPLAY-ERROR bad json", err)
	}
}

// ReplayHarness returns the harness named in the replay file.
func ReplayHarness() string { load(); return replay.Harness }

func next(name, kind string) string {
	load()
	if replayPos >= len(replay.Nondet) {
		fmt.Printf("VH-REPLAY-DIVERGED ran out of recorded values at %s (%s)\n", name, kind)
		panic(stopReplay{"diverged"})
	}
	e := replay.Nondet[replayPos]
	replayPos++
	if e.Name != name {
		fmt.Printf("VH-REPLAY-DIVERGED expected %s got %s\n", e.Name, name)
		panic(stopReplay{"diverged"})
	}
	return e.Val
}

func nextBig(name, kind string) *big.Int {
	v, ok := new(big.Int).SetString(next(name, kind), 10)
	if !ok {
		panic(stopReplay{"bad value"})
	}
	return v
}

func NondetBool(name string) bool  { return nextBig(name, "bool").Sign() != 0 }
func NondetU8(name string) uint8   { return uint8(nextBig(name, "u8").Uint64()) }
func NondetU16(name string) uint16 { return uint16(nextBig(name, "u16").Uint64()) }
func NondetU32(name string) uint32 { return uint32(nextBig(name, "u32").Uint64()) }
func NondetU64(name string) uint64 { return nextBig(name, "u64").Uint64() }
func NondetI64(name string) int64  { return nextBig(name, "i64").Int64() }

// NondetInt yields an int in [lo, hi].
func NondetInt(name string, lo, hi int) int { return int(nextBig(name, "int").Int64()) }

// NondetU64Range yields a uint64 in [lo, hi].
func NondetU64Range(name string, lo, hi uint64) uint64 { return nextBig(name, "u64").Uint64() }

// Choose is an enumerated case split 0..n-1 (forked by the engine, not solved).
func Choose(name string, n int) int { return int(nextBig(name, "choose").Int64()) }

// NondetBytes yields a byte slice with symbolic content and symbolic length in [minLen, maxLen].
func NondetBytes(name string, minLen, maxLen int) []byte {
	b, err := hex.DecodeString(next(name, "bytes"))
	if err != nil {
		panic(stopReplay{"bad hex"})
	}
	if b == nil {
		b = []byte{}
	}
	return b
}

// NondetString is NondetBytes as a string.
func NondetString(name string, minLen, maxLen int) string {
	return string(NondetBytes(name, minLen, maxLen))
}

// NondetHash yields 32 symbolic bytes.
func NondetHash(name string) [32]byte {
	var h [32]byte
	copy(h[:], NondetBytes(name, 32, 32))
	return h
}

// Assume restricts the inputs considered; natively a false assumption means the replay diverged.
func Assume(cond bool) {
	if !cond {
		fmt.Println("VH-ASSUME-FAILED")
		panic(stopReplay{"assume"})
	}
}

// Assert states the property.
func Assert(cond bool, id string) {
	if !cond {
		fmt.Println("VH-ASSERT-FAILED " + id)
		Failed = append(Failed, id)
	}
}

// Reach is a vacuity witness: the engine requires a feasible path through it.
func Reach(id string) {}

// Thorough reports whether the thorough tier is running.
func Thorough() bool { return os.Getenv("VERIF_TIER") == "thorough" }

// Native reports whether the harness runs natively (replay) rather than under the symbolic executor.
func Native() bool { return true }

// Redirect makes the symbolic executor call fn wherever the named function is called (used to
// shrink a production constant, e.g. the truncation depth; the bound is then part of the claim).
// Natively it does nothing: replays run the unmodified code and pad their inputs instead.
func Redirect(target string, fn any) {}

// Engine directives (no-ops natively).
func ExploreSchedules(preemptions int) {}
func CheckLeaks(on bool)               {}
func PermuteMaps(maxEntries int)       {}
func TrackRaces(on bool)               {}
func Trace(msg string)                 { fmt.Println("VH-TRACE " + msg) }
func SyncPoint()                       {}

// Tick makes every time.Ticker created by the code under test fire once (natively: wait a moment, the
// harness starts tickers with a millisecond period).
func Tick() { time.Sleep(5 * time.Millisecond) }

// SearchOnly declares a bug-hunting harness: exploration stops at the first verdict or after maxPaths
// paths, and the run is reported as not exhaustive (used where a known finding makes an exhaustive
// pass meaningless).
func SearchOnly(maxPaths int) {}

// SearchBudget bounds the number of explored paths of a harness without stopping at the first
// verdict (race harnesses: every schedule explored stands for its happens-before class).
func SearchBudget(maxPaths int) {}

// Quiesce waits until the goroutines started by the code under test have run (natively: a pause).
func Quiesce() { time.Sleep(300 * time.Millisecond) }

// Settle is Quiesce with schedule exploration: the caller waits until no other goroutine can run, and
// WHICH of the runnable goroutines runs next (whenever one finishes or blocks) is a scheduling decision
// the engine enumerates. Natively: a pause.
func Settle() { time.Sleep(300 * time.Millisecond) }

// RunHarness runs fn natively, reporting the outcome in the format bin/check parses.
func RunHarness(name string, fn func()) {
	defer func() {
		if x := recover(); x != nil {
			if s, ok := x.(stopReplay); ok {
				fmt.Println("VH-REPLAY-STOPPED " + s.why)
				return
			}
			fmt.Printf("VH-PANIC %v\n", x)
			panic(x)
		}
	}()
	fn()
	if len(Failed) == 0 {
		fmt.Println("VH-REPLAY-OK " + name)
	}
}

// ---- Z: unbounded integers for reference arithmetic ----

type Z struct{ b *big.Int }

func zb(z Z) *big.Int {
	if z.b == nil {
		return new(big.Int)
	}
	return z.b
}
func ZU64(x uint64) Z   { return Z{new(big.Int).SetUint64(x)} }
func ZI64(x int64) Z    { return Z{big.NewInt(x)} }
func ZAdd(a, b Z) Z     { return Z{new(big.Int).Add(zb(a), zb(b))} }
func ZSub(a, b Z) Z     { return Z{new(big.Int).Sub(zb(a), zb(b))} }
func ZMulU64(a Z, k uint64) Z {
	return Z{new(big.Int).Mul(zb(a), new(big.Int).SetUint64(k))}
}
func ZEq(a, b Z) bool { return zb(a).Cmp(zb(b)) == 0 }
func ZLt(a, b Z) bool { return zb(a).Cmp(zb(b)) < 0 }
func ZLe(a, b Z) bool { return zb(a).Cmp(zb(b)) <= 0 }
func ZGe(a, b Z) bool { return zb(a).Cmp(zb(b)) >= 0 }
func ZGt(a, b Z) bool { return zb(a).Cmp(zb(b)) > 0 }

// ZIte selects without branching (keeps harness paths few).
func ZIte(c bool, a, b Z) Z {
	if c {
		return a
	}
	return b
}

// ZPow2x64 is 2^64 as a Z.
func ZPow2x64() Z { return Z{new(big.Int).Lsh(big.NewInt(1), 64)} }

func (z Z) String() string { return zb(z).String() }

// Non-short-circuit boolean helpers: keep a compound condition one term instead of several paths.
func And(a, b bool) bool     { return a && b }
func Or(a, b bool) bool      { return a || b }
func Implies(a, b bool) bool { return !a || b }
func Not(a bool) bool        { return !a }

// Itoa is a convenience for harness labels.
func Itoa(i int) string { return strconv.Itoa(i) }
