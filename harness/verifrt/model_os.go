//go:build verif

package verifrt

import "os"

func ModelOsCreate(name string) (*os.File, error) { return new(os.File), nil }
func ModelFileClose(f *os.File) error             { return nil }
