//go:build verif

package verifrt

// Go-source model of allegro/bigcache as used by the repository: key -> bytes map, every call one
// atomic step (a scheduling point at entry), Get returns a copy, no expiry and no eviction within a
// run, Get/Delete of an absent key -> ErrEntryNotFound.

import "github.com/allegro/bigcache"

type ModelCache struct{ m map[string][]byte }

func ModelNewBigCache(cfg bigcache.Config) (*bigcache.BigCache, error) {
	c := new(bigcache.BigCache)
	modelAttach(c, &ModelCache{m: map[string][]byte{}})
	return c, nil
}

func modelCacheOf(c *bigcache.BigCache) *ModelCache {
	st, _ := modelAttached(c).(*ModelCache)
	if st == nil {
		panic("verifrt: bigcache.BigCache without model state")
	}
	return st
}

func ModelCacheGet(c *bigcache.BigCache, key string) ([]byte, error) {
	SyncPoint()
	v, ok := modelCacheOf(c).m[key]
	if !ok {
		return nil, bigcache.ErrEntryNotFound
	}
	out := make([]byte, len(v))
	copy(out, v)
	return out, nil
}

func ModelCacheSet(c *bigcache.BigCache, key string, entry []byte) error {
	SyncPoint()
	v := make([]byte, len(entry))
	copy(v, entry)
	modelCacheOf(c).m[key] = v
	return nil
}

func ModelCacheDelete(c *bigcache.BigCache, key string) error {
	SyncPoint()
	st := modelCacheOf(c)
	if _, ok := st.m[key]; !ok {
		return bigcache.ErrEntryNotFound
	}
	delete(st.m, key)
	return nil
}

func ModelCacheClose(c *bigcache.BigCache) error { return nil }
func ModelCacheLen(c *bigcache.BigCache) int     { return len(modelCacheOf(c).m) }
