//go:build verif

package verifrt

// Go-source models of standard-library leaf functions that have no Go body
// (assembly) or use reflection. The symbolic executor redirects calls to the
// originals to these; natively they are never called.

// ModelErrorsIs replaces errors.Is (which consults reflectlite for comparability).
func ModelErrorsIs(err, target error) bool {
	if err == nil || target == nil {
		return err == target
	}
	for {
		if err == target {
			return true
		}
		if x, ok := err.(interface{ Is(error) bool }); ok && x.Is(target) {
			return true
		}
		switch x := err.(type) {
		case interface{ Unwrap() error }:
			err = x.Unwrap()
			if err == nil {
				return false
			}
		case interface{ Unwrap() []error }:
			for _, e := range x.Unwrap() {
				if ModelErrorsIs(e, target) {
					return true
				}
			}
			return false
		default:
			return false
		}
	}
}

type modelWrapError struct {
	msg string
	err error
}

func (e *modelWrapError) Error() string { return e.msg }
func (e *modelWrapError) Unwrap() error { return e.err }

type modelFmtError struct{ msg string }

func (e *modelFmtError) Error() string { return e.msg }

// ModelErrorf replaces fmt.Errorf: the message is the format string; the first
// error argument is wrapped when the format contains %w.
func ModelErrorf(format string, a ...any) error {
	hasW := false
	for i := 0; i+1 < len(format); i++ {
		if format[i] == '%' && format[i+1] == 'w' {
			hasW = true
		}
	}
	if hasW {
		for _, x := range a {
			if e, ok := x.(error); ok {
				return &modelWrapError{msg: format, err: e}
			}
		}
	}
	return &modelFmtError{msg: format}
}

func ModelBytesEqual(a, b []byte) bool {
	if len(a) != len(b) {
		return false
	}
	for i := range a {
		if a[i] != b[i] {
			return false
		}
	}
	return true
}

func ModelBytesCompare(a, b []byte) int {
	n := len(a)
	if len(b) < n {
		n = len(b)
	}
	for i := 0; i < n; i++ {
		if a[i] < b[i] {
			return -1
		}
		if a[i] > b[i] {
			return 1
		}
	}
	if len(a) < len(b) {
		return -1
	}
	if len(a) > len(b) {
		return 1
	}
	return 0
}

func ModelIndexByte(b []byte, c byte) int {
	for i, x := range b {
		if x == c {
			return i
		}
	}
	return -1
}

func ModelIndexByteString(s string, c byte) int {
	for i := 0; i < len(s); i++ {
		if s[i] == c {
			return i
		}
	}
	return -1
}

func ModelLastIndexByte(b []byte, c byte) int {
	for i := len(b) - 1; i >= 0; i-- {
		if b[i] == c {
			return i
		}
	}
	return -1
}

func ModelLastIndexByteString(s string, c byte) int {
	for i := len(s) - 1; i >= 0; i-- {
		if s[i] == c {
			return i
		}
	}
	return -1
}

func ModelCount(b []byte, c byte) int {
	n := 0
	for _, x := range b {
		if x == c {
			n++
		}
	}
	return n
}

func ModelCountString(s string, c byte) int {
	n := 0
	for i := 0; i < len(s); i++ {
		if s[i] == c {
			n++
		}
	}
	return n
}

func ModelIndex(a, b []byte) int {
	for i := 0; i+len(b) <= len(a); i++ {
		if ModelBytesEqual(a[i:i+len(b)], b) {
			return i
		}
	}
	return -1
}

func ModelIndexString(a, b string) int {
	for i := 0; i+len(b) <= len(a); i++ {
		if a[i:i+len(b)] == b {
			return i
		}
	}
	return -1
}

func ModelMakeNoZero(n int) []byte { return make([]byte, n) }
