//go:build verif

package transformers

// C19 (transaction <-> protobuf): every transaction the mapping accepts comes back with every
// signed field identical (so the signed message and therefore every verification verdict is the
// same on the receiving node). Field contents are symbolic: byte/strings fields of length 0..3 with
// arbitrary bytes (nil and empty included), full-width integers, any int64 nanosecond timestamp.
// The protobuf wire codec itself (proto.Marshal/Unmarshal) is outside: the wire is modelled as a
// deep copy in which empty bytes fields arrive as nil.

import (
	"time"

	"github.com/bartossh/Computantis/src/protobufcompiled"
	"github.com/bartossh/Computantis/src/spice"
	"github.com/bartossh/Computantis/src/transaction"
	"github.com/bartossh/Computantis/src/verifrt"
)

func vhBytesField(name string) []byte {
	switch verifrt.Choose(name+".shape", 3) {
	case 0:
		return nil
	case 1:
		return []byte{}
	}
	return verifrt.NondetBytes(name, 1, 3)
}

func vhWireBytes(b []byte) []byte {
	if len(b) == 0 {
		return nil
	}
	c := make([]byte, len(b))
	copy(c, b)
	return c
}

func vhWireTrx(p *protobufcompiled.Transaction) *protobufcompiled.Transaction {
	if p == nil {
		return nil
	}
	c := &protobufcompiled.Transaction{
		Subject: p.Subject, Data: vhWireBytes(p.Data), Hash: vhWireBytes(p.Hash), CreatedAt: p.CreatedAt,
		ReceiverAddress: p.ReceiverAddress, IssuerAddress: p.IssuerAddress,
		ReceiverSignature: vhWireBytes(p.ReceiverSignature), IssuerSignature: vhWireBytes(p.IssuerSignature),
	}
	if p.Spice != nil {
		c.Spice = &protobufcompiled.Spice{Currency: p.Spice.Currency, SupplementaryCurrency: p.Spice.SupplementaryCurrency}
	}
	return c
}

func vhSymTrx() transaction.Transaction {
	return transaction.Transaction{
		CreatedAt:         time.Unix(0, verifrt.NondetI64("created")),
		IssuerAddress:     verifrt.NondetString("issuer", 0, 2),
		ReceiverAddress:   verifrt.NondetString("receiver", 0, 2),
		Subject:           verifrt.NondetString("subject", 0, 2),
		Data:              vhBytesField("data"),
		IssuerSignature:   vhBytesField("isig"),
		ReceiverSignature: vhBytesField("rsig"),
		Hash:              verifrt.NondetHash("hash"),
		Spice:             spice.Melange{Currency: verifrt.NondetU64("cur"), SupplementaryCurrency: verifrt.NondetU64("sup")},
	}
}

func VH_C19_trx_roundtrip() {
	t := vhSymTrx()
	p, err := TrxToProtoTrx(t)
	if err != nil {
		verifrt.Assert(t.Subject == "" || t.IssuerAddress == "" || t.ReceiverAddress == "" || t.CreatedAt.IsZero() || len(t.IssuerSignature) == 0,
			"C19/trx/encode-refuses-only-incomplete-transactions")
		verifrt.Reach("C19/trx/encode-refused")
		return
	}
	back, err := ProtoTrxToTrx(vhWireTrx(p))
	if err != nil {
		// documented asymmetry: a transaction created exactly at the Unix epoch encodes but does not decode
		verifrt.Assert(t.CreatedAt.UnixNano() == 0, "C19/trx/decode-refuses-only-the-epoch-timestamp")
		verifrt.Reach("C19/trx/decode-refused")
		return
	}
	verifrt.Assert(back.CreatedAt.UnixNano() == t.CreatedAt.UnixNano(), "C19/trx/created-at")
	verifrt.Assert(back.CreatedAt.Equal(t.CreatedAt), "C19/trx/created-at-equal")
	verifrt.Assert(back.IssuerAddress == t.IssuerAddress && back.ReceiverAddress == t.ReceiverAddress, "C19/trx/addresses")
	verifrt.Assert(back.Subject == t.Subject, "C19/trx/subject")
	verifrt.Assert(string(back.Data) == string(t.Data), "C19/trx/data")
	verifrt.Assert(string(back.IssuerSignature) == string(t.IssuerSignature), "C19/trx/issuer-signature")
	verifrt.Assert(string(back.ReceiverSignature) == string(t.ReceiverSignature), "C19/trx/receiver-signature")
	verifrt.Assert(back.Hash == t.Hash, "C19/trx/hash")
	verifrt.Assert(back.Spice == t.Spice, "C19/trx/spice")
	// GetMessage is a function of exactly the fields compared above, so the signed message is identical
	verifrt.Reach("C19/trx/ok")
}
