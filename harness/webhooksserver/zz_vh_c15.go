//go:build verif

package webhooksserver

// C15 (webhooks API): Webhooks on every decodable SignedHash shape returns without panicking and a
// refused request registers nothing.

import (
	"context"
	"errors"

	"google.golang.org/protobuf/types/known/emptypb"

	"github.com/bartossh/Computantis/src/protobufcompiled"
	"github.com/bartossh/Computantis/src/verifrt"
	"github.com/bartossh/Computantis/src/webhooks"
)

var errVH = errors.New("vh: refused")

type vhVerifier struct{ fails *int }

func (v vhVerifier) Verify(message, signature []byte, hash [32]byte, address string) error {
	if verifrt.NondetBool("verify.ok") {
		return nil
	}
	*v.fails++
	return errVH
}

type vhHooks struct{ created *int }

func (h vhHooks) CreateWebhook(trigger byte, publicAddress string, hook webhooks.Hook) error {
	if verifrt.NondetBool("create.ok") {
		*h.created++
		return nil
	}
	return errVH
}
func (h vhHooks) RemoveWebhook(trigger byte, address string, hook webhooks.Hook) error { return nil }
func (h vhHooks) PostWebhookNewTransaction(publicAddresses []string, storingNodeURL string) {}

type vhLog struct{}

func (vhLog) Debug(string) {}
func (vhLog) Info(string)  {}
func (vhLog) Warn(string)  {}
func (vhLog) Error(string) {}
func (vhLog) Fatal(string) {}

func VH_C15_webhooks() {
	fails, created := 0, 0
	a := &app{log: vhLog{}, ver: vhVerifier{&fails}, wh: vhHooks{&created}}
	in := &protobufcompiled.SignedHash{Address: verifrt.NondetString("address", 0, 1), Data: verifrt.NondetBytes("data", 0, 40),
		Hash: verifrt.NondetBytes("hash", 0, 40), Signature: verifrt.NondetBytes("signature", 0, 1)}
	_, err := a.Webhooks(context.Background(), in)
	if err != nil {
		verifrt.Assert(created == 0, "C15/webhooks/refused-request-registers-nothing")
	}
	if fails > 0 {
		verifrt.Assert(err != nil && created == 0, "C15/webhooks/bad-signature-is-refused")
	}
	out, e2 := a.Alive(context.Background(), &emptypb.Empty{})
	verifrt.Assert(e2 == nil && out != nil, "C15/webhooks/alive-answers")
	verifrt.Reach("C15/webhooks/end")
}
