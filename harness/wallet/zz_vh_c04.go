//go:build verif

package wallet

// C04-H3 / H2b: addresses are self-checking and unambiguous, and Helper.Verify binds message, digest,
// signature and address. Cryptography is idealised (DESIGN §2.7): SHA-256 is a collision-free
// uninterpreted function, Ed25519 is unforgeable for honest keys, base58 is a bijection.

import (
	"github.com/bartossh/Computantis/src/serializer"
	"github.com/bartossh/Computantis/src/verifrt"
)

// vhAddress builds an address string from arbitrary parts the way an adversary can: any version byte,
// a key of any length 0..34, and either the matching checksum (computed by the real function, so the
// construction replays natively with the real SHA-256) or four arbitrary bytes.
const version_ = version

func vhAddress(name string) (addr string, version byte, key []byte, goodChecksum bool) {
	version = verifrt.NondetU8(name + ".version")
	key = verifrt.NondetBytes(name+".key", 0, 34)
	payload := append([]byte{version}, key...)
	var cs []byte
	genuine := checksum(payload)
	reversioned := checksum(append([]byte{version_}, key...)) // the checksum of the same key under the standard version byte
	// idealisation (DESIGN §2.7): the 4-byte checksum does not collide between the two version readings of one key
	verifrt.Assume(version == version_ || string(genuine) != string(reversioned))
	switch verifrt.Choose(name+".checksum", 3) {
	case 0:
		cs, goodChecksum = genuine, true
	case 1:
		cs = reversioned
	default: // any other four bytes (the two computed values are the cases above, so the split is exhaustive)
		cs = verifrt.NondetBytes(name+".cs", 4, 4)
		verifrt.Assume(string(cs) != string(genuine) && string(cs) != string(reversioned))
	}
	return string(serializer.Base58Encode(append(payload, cs...))), version, key, goodChecksum
}

// VH_C04_address_selfcheck: every string that AddressToPubKey accepts carries a 32-byte key, and no
// two different accepted strings carry the same key.
func VH_C04_address_selfcheck() {
	a1, _, _, _ := vhAddress("a1")
	h := NewVerifier()
	k1, e1 := h.AddressToPubKey(a1)
	if e1 != nil {
		verifrt.Reach("C04/address/refused")
		return
	}
	verifrt.Assert(len(k1) == 32, "C04/address/accepted-address-carries-a-32-byte-key")
	a2, _, _, _ := vhAddress("a2")
	k2, e2 := h.AddressToPubKey(a2)
	if e2 != nil {
		return
	}
	verifrt.Assert(a1 == a2 || string(k1) != string(k2), "C04/address/one-address-per-key")
	verifrt.Reach("C04/address/ok")
}

// VH_C04_own_address_roundtrip: the address a wallet prints decodes to its own key.
func VH_C04_own_address_roundtrip() {
	w, err := New()
	verifrt.Assert(err == nil, "C04/address/wallet-created")
	k, e := NewVerifier().AddressToPubKey(w.Address())
	verifrt.Assert(e == nil && string(k) == string(w.Public), "C04/address/own-address-decodes-to-own-key")
	verifrt.Reach("C04/address/roundtrip")
}

// VH_C04_verify_binds: under an honest key, Helper.Verify accepts only exactly what was signed.
func VH_C04_verify_binds() {
	w, err := New()
	verifrt.Assert(err == nil, "C04/verify/wallet-created")
	verifrt.HonestKey(w.Public)
	msg := verifrt.NondetBytes("message", 0, 3)
	digest, sig := w.Sign(msg)
	h := NewVerifier()
	verifrt.Assert(h.Verify(msg, sig, digest, w.Address()) == nil, "C04/verify/genuine-signature-accepted")
	msg2 := verifrt.NondetBytes("message'", 0, 3)
	sig2 := verifrt.NondetBytes("signature'", 0, 66)
	hash2 := verifrt.NondetHash("hash'")
	if h.Verify(msg2, sig2, hash2, w.Address()) == nil {
		verifrt.Assert(string(msg2) == string(msg), "C04/verify/message-bound")
		verifrt.Assert(hash2 == digest, "C04/verify/digest-bound")
		verifrt.Assert(string(sig2) == string(sig), "C04/verify/signature-bound")
		verifrt.Reach("C04/verify/accepted")
	}
	verifrt.Reach("C04/verify/end")
}
