//go:build verif

package spice

// C05 harnesses: the real Supply / Transfer / Drain / New against unbounded-integer
// arithmetic on currency*10^18 + supplementary, for ALL 64-bit pairs (no sampling).

import "github.com/bartossh/Computantis/src/verifrt"

func vhCanon(m Melange) bool { return m.SupplementaryCurrency < MaxAmountPerSupplementaryCurrency }

func vhVal(m Melange) verifrt.Z {
	return verifrt.ZAdd(verifrt.ZMulU64(verifrt.ZU64(m.Currency), MaxAmountPerSupplementaryCurrency), verifrt.ZU64(m.SupplementaryCurrency))
}

// vhLimit is the first value that is not representable: 2^64 * 10^18.
func vhLimit() verifrt.Z { return verifrt.ZMulU64(verifrt.ZPow2x64(), MaxAmountPerSupplementaryCurrency) }

func vhMelange(name string) Melange {
	return Melange{Currency: verifrt.NondetU64(name + ".cur"), SupplementaryCurrency: verifrt.NondetU64(name + ".sup")}
}

func VH_C05_supply() {
	m, a := vhMelange("m"), vhMelange("amount")
	verifrt.Assume(verifrt.And(vhCanon(m), vhCanon(a)))
	pre := m
	sum := verifrt.ZAdd(vhVal(m), vhVal(a))
	fits := verifrt.ZLt(sum, vhLimit())
	err := m.Supply(a)
	if err != nil {
		verifrt.Assert(m == pre, "C05/supply/failed-op-changes-nothing")
		verifrt.Assert(verifrt.Not(fits), "C05/supply/error-only-on-overflow")
		verifrt.Assert(err == ErrValueOverflow, "C05/supply/error-kind")
		verifrt.Reach("C05/supply/err")
		return
	}
	verifrt.Assert(fits, "C05/supply/overflow-detected")
	verifrt.Assert(vhCanon(m), "C05/supply/result-canonical")
	verifrt.Assert(verifrt.ZEq(vhVal(m), sum), "C05/supply/exact")
	verifrt.Reach("C05/supply/ok")
}

func vhTransferSpec(viaDrain bool) {
	from, to, a := vhMelange("from"), vhMelange("to"), vhMelange("amount")
	verifrt.Assume(verifrt.And(vhCanon(from), verifrt.And(vhCanon(to), vhCanon(a))))
	preFrom, preTo := from, to
	insufficient := verifrt.ZLt(vhVal(from), vhVal(a))
	toSum := verifrt.ZAdd(vhVal(to), vhVal(a))
	overflow := verifrt.ZGe(toSum, vhLimit())
	var err error
	if viaDrain {
		err = from.Drain(a, &to)
	} else {
		err = Transfer(a, &from, &to)
	}
	if err != nil {
		verifrt.Assert(verifrt.And(from == preFrom, to == preTo), "C05/transfer/failed-op-changes-nothing")
		verifrt.Assert(verifrt.Or(insufficient, overflow), "C05/transfer/error-only-when-impossible")
		if err == ErrNoSufficientFounds {
			verifrt.Assert(insufficient, "C05/transfer/insufficient-kind")
		} else {
			verifrt.Assert(err == ErrValueOverflow, "C05/transfer/error-kind")
			verifrt.Assert(overflow, "C05/transfer/overflow-kind")
		}
		verifrt.Reach("C05/transfer/err")
		return
	}
	verifrt.Assert(verifrt.Not(insufficient), "C05/transfer/insufficient-detected")
	verifrt.Assert(verifrt.Not(overflow), "C05/transfer/overflow-detected")
	verifrt.Assert(verifrt.And(vhCanon(from), vhCanon(to)), "C05/transfer/result-canonical")
	verifrt.Assert(verifrt.ZEq(vhVal(from), verifrt.ZSub(vhVal(preFrom), vhVal(a))), "C05/transfer/source-exact")
	verifrt.Assert(verifrt.ZEq(vhVal(to), toSum), "C05/transfer/sink-exact")
	verifrt.Reach("C05/transfer/ok")
}

func VH_C05_transfer() { vhTransferSpec(false) }
func VH_C05_drain()    { vhTransferSpec(true) }

// New normalises one carry: for supplementary < 2*10^18 and no currency wrap the value is preserved.
func VH_C05_new() {
	c, s := verifrt.NondetU64("cur"), verifrt.NondetU64("sup")
	verifrt.Assume(verifrt.Or(s < MaxAmountPerSupplementaryCurrency,
		verifrt.And(s < 2*MaxAmountPerSupplementaryCurrency, c < 18446744073709551615)))
	m := New(c, s)
	verifrt.Assert(vhCanon(m), "C05/new/canonical")
	want := verifrt.ZAdd(verifrt.ZMulU64(verifrt.ZU64(c), MaxAmountPerSupplementaryCurrency), verifrt.ZU64(s))
	verifrt.Assert(verifrt.ZEq(vhVal(m), want), "C05/new/exact")
	e := Melange{}
	verifrt.Assert(e.Empty(), "C05/new/zero-is-empty")
	verifrt.Assert(m.Empty() == verifrt.And(c == 0, s == 0), "C05/new/empty-iff-zero")
	verifrt.Reach("C05/new/end")
}
