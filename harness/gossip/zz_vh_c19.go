//go:build verif

package gossip

// C19 (vertex <-> protobuf): every vertex comes back from the wire mapping with every signed field
// identical. The protobuf wire codec itself is outside (modelled as a deep copy, empty bytes -> nil).

import (
	"time"

	"github.com/bartossh/Computantis/src/accountant"
	"github.com/bartossh/Computantis/src/protobufcompiled"
	"github.com/bartossh/Computantis/src/spice"
	"github.com/bartossh/Computantis/src/transaction"
	"github.com/bartossh/Computantis/src/verifrt"
)

func vhBytesField(name string) []byte {
	switch verifrt.Choose(name+".shape", 3) {
	case 0:
		return nil
	case 1:
		return []byte{}
	}
	return verifrt.NondetBytes(name, 1, 3)
}

func vhWireBytes(b []byte) []byte {
	if len(b) == 0 {
		return nil
	}
	c := make([]byte, len(b))
	copy(c, b)
	return c
}

func vhWireVertex(p *protobufcompiled.Vertex) *protobufcompiled.Vertex {
	c := &protobufcompiled.Vertex{
		SignerPublicAddress: p.SignerPublicAddress, CreatedAt: p.CreatedAt, Signature: vhWireBytes(p.Signature),
		Hash: vhWireBytes(p.Hash), LeftParentHash: vhWireBytes(p.LeftParentHash), RightParentHash: vhWireBytes(p.RightParentHash), Weight: p.Weight,
	}
	if t := p.Transaction; t != nil {
		c.Transaction = &protobufcompiled.Transaction{
			Subject: t.Subject, Data: vhWireBytes(t.Data), Hash: vhWireBytes(t.Hash), CreatedAt: t.CreatedAt,
			ReceiverAddress: t.ReceiverAddress, IssuerAddress: t.IssuerAddress,
			ReceiverSignature: vhWireBytes(t.ReceiverSignature), IssuerSignature: vhWireBytes(t.IssuerSignature),
		}
		if t.Spice != nil {
			c.Transaction.Spice = &protobufcompiled.Spice{Currency: t.Spice.Currency, SupplementaryCurrency: t.Spice.SupplementaryCurrency}
		}
	}
	return c
}

func vhSymVertex() accountant.Vertex {
	return accountant.Vertex{
		SignerPublicAddress: verifrt.NondetString("sealer", 0, 2),
		CreatedAt:           time.Unix(0, verifrt.NondetI64("vcreated")),
		Signature:           vhBytesField("vsig"),
		Transaction: transaction.Transaction{
			CreatedAt:         time.Unix(0, verifrt.NondetI64("tcreated")),
			IssuerAddress:     verifrt.NondetString("issuer", 0, 2),
			ReceiverAddress:   verifrt.NondetString("receiver", 0, 2),
			Subject:           verifrt.NondetString("subject", 0, 2),
			Data:              vhBytesField("data"),
			IssuerSignature:   vhBytesField("isig"),
			ReceiverSignature: vhBytesField("rsig"),
			Hash:              verifrt.NondetHash("thash"),
			Spice:             spice.Melange{Currency: verifrt.NondetU64("cur"), SupplementaryCurrency: verifrt.NondetU64("sup")},
		},
		Hash:            verifrt.NondetHash("hash"),
		LeftParentHash:  verifrt.NondetHash("left"),
		RightParentHash: verifrt.NondetHash("right"),
		Weight:          verifrt.NondetU64("weight"),
	}
}

func VH_C19_vertex_roundtrip() {
	v := vhSymVertex()
	back := mapProtoVertexToAccountantVertex(vhWireVertex(mapAccountantVertexToProtoVertex(&v)))
	verifrt.Assert(back.SignerPublicAddress == v.SignerPublicAddress, "C19/vertex/sealer")
	verifrt.Assert(back.CreatedAt.UnixNano() == v.CreatedAt.UnixNano(), "C19/vertex/created-at")
	verifrt.Assert(string(back.Signature) == string(v.Signature), "C19/vertex/signature")
	verifrt.Assert(back.Hash == v.Hash && back.LeftParentHash == v.LeftParentHash && back.RightParentHash == v.RightParentHash, "C19/vertex/hashes")
	verifrt.Assert(back.Weight == v.Weight, "C19/vertex/weight")
	bt, t := back.Transaction, v.Transaction
	verifrt.Assert(bt.CreatedAt.UnixNano() == t.CreatedAt.UnixNano(), "C19/vertex/trx-created-at")
	verifrt.Assert(bt.IssuerAddress == t.IssuerAddress && bt.ReceiverAddress == t.ReceiverAddress && bt.Subject == t.Subject, "C19/vertex/trx-strings")
	verifrt.Assert(string(bt.Data) == string(t.Data), "C19/vertex/trx-data")
	verifrt.Assert(string(bt.IssuerSignature) == string(t.IssuerSignature) && string(bt.ReceiverSignature) == string(t.ReceiverSignature), "C19/vertex/trx-signatures")
	verifrt.Assert(bt.Hash == t.Hash && bt.Spice == t.Spice, "C19/vertex/trx-hash-and-spice")
	// the receiving node distinguishes countersigned transactions by len(ReceiverSignature) != 0: preserved
	verifrt.Assert((len(bt.ReceiverSignature) != 0) == (len(t.ReceiverSignature) != 0), "C19/vertex/countersigned-flag")
	verifrt.Reach("C19/vertex/ok")
}
