//go:build verif

package gossip

// C12: gossiper lists cannot be forged to suppress delivery. The real verifyGossipers / GossipVrx /
// gossipVertex run with the real wallet.Helper (address decoding, digest check, Ed25519) under
// idealised cryptography (DESIGN §2.7). The adversary holds its own key, and every signature the
// honest nodes ever produced for OTHER purposes: their gossiper signatures for another item and
// their parent-fetch signature over the bare item hash.

import (
	"context"
	"crypto/sha256"
	"time"

	"google.golang.org/grpc"
	"google.golang.org/protobuf/types/known/emptypb"

	"github.com/bartossh/Computantis/src/protobufcompiled"
	"github.com/bartossh/Computantis/src/transaction"
	"github.com/bartossh/Computantis/src/transformers"
	"github.com/bartossh/Computantis/src/verifrt"
	"github.com/bartossh/Computantis/src/wallet"
)

type vhC12World struct {
	n, p, a      wallet.Wallet // this node, an honest peer, the adversary
	h, other     [32]byte
	pSigned      bool
	genuineP     *protobufcompiled.Gossiper
	templates    int
	usedGenuineP bool
	usedOwnA     bool
}

func vhC12Setup() *vhC12World {
	w := &vhC12World{}
	w.n, _ = wallet.New()
	w.p, _ = wallet.New()
	w.a, _ = wallet.New()
	verifrt.HonestKey(w.n.Public)
	verifrt.HonestKey(w.p.Public)
	w.h, w.other = verifrt.NondetHash("item"), verifrt.NondetHash("other-item")
	verifrt.Assume(w.h != w.other)
	return w
}

func vhSigned(s *wallet.Wallet, addr string, h [32]byte) *protobufcompiled.Gossiper {
	d, sig := s.Sign(createGossiperMessageToSign(addr, h))
	return &protobufcompiled.Gossiper{Address: addr, Digest: d[:], Signature: sig}
}

// vhEntry: one list entry the adversary can assemble.
func (w *vhC12World) vhEntry(name string) *protobufcompiled.Gossiper {
	k := verifrt.Choose(name, 9)
	switch k {
	case 0: // the honest peer's genuine signature, but for another item
		return vhSigned(&w.p, w.p.Address(), w.other)
	case 1: // the honest peer's parent-fetch signature over the bare item hash (another protocol message)
		d, sig := w.p.Sign(w.h[:])
		return &protobufcompiled.Gossiper{Address: w.p.Address(), Digest: d[:], Signature: sig}
	case 2: // the honest peer named with arbitrary digest and signature bytes
		return &protobufcompiled.Gossiper{Address: w.p.Address(), Digest: verifrt.NondetBytes(name+".digest", 31, 33), Signature: verifrt.NondetBytes(name+".sig", 64, 64)}
	case 3: // this node's genuine signature for another item
		return vhSigned(&w.n, w.n.Address(), w.other)
	case 4: // this node named with the CORRECT digest for this item and an arbitrary signature
		d := sha256.Sum256(createGossiperMessageToSign(w.n.Address(), w.h))
		return &protobufcompiled.Gossiper{Address: w.n.Address(), Digest: d[:], Signature: verifrt.NondetBytes(name+".sig", 64, 64)}
	case 5: // the adversary's own valid entry
		w.usedOwnA = true
		return vhSigned(&w.a, w.a.Address(), w.h)
	case 6: // the honest peer's genuine entry for this item (only if the peer really signed it)
		if w.genuineP == nil {
			w.genuineP = vhSigned(&w.p, w.p.Address(), w.h)
		}
		w.usedGenuineP = true
		return w.genuineP
	case 7: // the honest peer named, correct digest for this item, signature taken from the other item
		d := sha256.Sum256(createGossiperMessageToSign(w.p.Address(), w.h))
		o := vhSigned(&w.p, w.p.Address(), w.other)
		return &protobufcompiled.Gossiper{Address: w.p.Address(), Digest: d[:], Signature: o.Signature}
	}
	// the honest peer named, signed by the adversary's key
	d, sig := w.a.Sign(createGossiperMessageToSign(w.p.Address(), w.h))
	return &protobufcompiled.Gossiper{Address: w.p.Address(), Digest: d[:], Signature: sig}
}

func (w *vhC12World) gossiper(acc accounter) *gossiper {
	return &gossiper{accounter: acc, verifier: wallet.NewVerifier(), signer: &w.n, log: vhLog{}, trxCache: vhCacheD{&vhWorld{}},
		flash: vhQuietFlash{}, nodes: map[string]nodeData{}, url: "u"}
}

// vhWarmUp: optionally, the node has earlier honestly received the OTHER item with the genuine entries of the
// honest peer and of itself (what ordinary gossip makes it verify before the adversary's message arrives).
func (w *vhC12World) vhWarmUp(g *gossiper) {
	if verifrt.Choose("earlier-honest-gossip-of-the-other-item", 2) == 1 {
		set := g.verifyGossipers(w.other, []*protobufcompiled.Gossiper{vhSigned(&w.p, w.p.Address(), w.other), vhSigned(&w.n, w.n.Address(), w.other)})
		verifrt.Assert(len(set) == 2, "C12/warm-up/genuine-entries-verify")
	}
}

type vhQuietFlash struct{}

func (vhQuietFlash) HasHash(h []byte) (bool, error) { return false, nil }
func (vhQuietFlash) RemoveAddress(a string) error   { return nil }

// VH_C12_verify_gossipers: an honest address is in the verified set only if that node really signed
// (its address, this item).
func VH_C12_verify_gossipers() {
	w := vhC12Setup()
	g := w.gossiper(nil)
	w.vhWarmUp(g)
	list := []*protobufcompiled.Gossiper{w.vhEntry("entry1"), w.vhEntry("entry2")}
	set := g.verifyGossipers(w.h, list)
	_, hasP := set[w.p.Address()]
	_, hasN := set[w.n.Address()]
	_, hasA := set[w.a.Address()]
	verifrt.Assert(!hasN, "C12/verify/this-node-never-signed-so-never-listed")
	verifrt.Assert(hasP == w.usedGenuineP, "C12/verify/peer-listed-iff-it-signed-this-item")
	verifrt.Assert(hasA == w.usedOwnA, "C12/verify/own-valid-entry-kept")
	verifrt.Reach("C12/verify/end")
}

type vhRecClient struct {
	protobufcompiled.GossipAPIClient
	calls *int
}

func (c vhRecClient) GossipVrx(ctx context.Context, in *protobufcompiled.VrxMsgGossip, opts ...grpc.CallOption) (*emptypb.Empty, error) {
	*c.calls++
	return &emptypb.Empty{}, nil
}

func (c vhRecClient) GossipTrx(ctx context.Context, in *protobufcompiled.TrxMsgGossip, opts ...grpc.CallOption) (*emptypb.Empty, error) {
	*c.calls++
	return &emptypb.Empty{}, nil
}

type vhOkAcc struct {
	vhAcc
	added *int
}

// VH_C12_decisions: whatever list a malicious relay attaches, the node still processes the vertex
// and still forwards it to a peer that has not validly signed.
func VH_C12_decisions() {
	verifrt.CheckLeaks(true)
	w := vhC12Setup()
	world := &vhWorld{}
	world.parked = 1 // the ledger double never reports a missing parent here
	g := w.gossiper(vhAcc{world})
	forwards := 0
	g.nodes[w.p.Address()] = nodeData{url: "p", client: vhRecClient{calls: &forwards}}
	vhConcreteTimes = true
	v := vhProtoVertexFull(w.h)
	w.vhWarmUp(g)
	list := []*protobufcompiled.Gossiper{w.vhEntry("entry1"), w.vhEntry("entry2")}
	_, err := g.GossipVrx(context.Background(), &protobufcompiled.VrxMsgGossip{Vertex: v, Gossipers: list})
	if err == nil {
		verifrt.Assert(world.addLeafs == 1, "C12/decisions/forged-self-entry-does-not-stop-processing")
	}
	verifrt.Quiesce() // let the forwarding goroutines run
	if err == nil && !w.usedGenuineP {
		verifrt.Assert(forwards == 1, "C12/decisions/still-forwarded-to-a-peer-that-did-not-sign")
	}
	if err == nil && w.usedGenuineP {
		verifrt.Assert(forwards == 0, "C12/decisions/not-forwarded-to-a-peer-that-signed")
	}
	verifrt.Reach("C12/decisions/end")
}

func vhProtoVertexFull(h [32]byte) *protobufcompiled.Vertex {
	var z [32]byte
	return &protobufcompiled.Vertex{SignerPublicAddress: "S", CreatedAt: 1700000000000000000, Signature: []byte{1}, Hash: h[:], LeftParentHash: z[:], RightParentHash: z[:], Weight: 1,
		Transaction: &protobufcompiled.Transaction{Subject: "s", Hash: z[:], CreatedAt: 1700000000000000000, ReceiverAddress: "r", IssuerAddress: "i", IssuerSignature: []byte{1},
			Spice: &protobufcompiled.Spice{Currency: 1}}}
}

// VH_C12_trx_decisions: the same for awaited-transaction gossip (GossipTrx / gossipTransaction): whatever
// list is attached, the node stores the transaction and forwards it to a peer that has not validly signed.
func VH_C12_trx_decisions() {
	verifrt.CheckLeaks(true)
	w := vhC12Setup()
	trx := transaction.Transaction{CreatedAt: time.Unix(1700000000, 0), IssuerAddress: w.a.Address(), ReceiverAddress: w.p.Address(),
		Subject: "s", Data: []byte{1}}
	trx.Hash, trx.IssuerSignature = w.a.Sign(trx.GetMessage())
	w.h = trx.Hash
	verifrt.Assume(w.h != w.other)
	world := &vhWorld{}
	g := w.gossiper(vhAcc{world})
	g.trxCache = vhCacheD{world}
	forwards := 0
	g.nodes[w.p.Address()] = nodeData{url: "p", client: vhRecClient{calls: &forwards}}
	pt, err := transformers.TrxToProtoTrx(trx)
	verifrt.Assert(err == nil, "C12/trx-decisions/setup")
	w.vhWarmUp(g)
	list := []*protobufcompiled.Gossiper{w.vhEntry("entry1"), w.vhEntry("entry2")}
	_, err = g.GossipTrx(context.Background(), &protobufcompiled.TrxMsgGossip{Trx: pt, Gossipers: list})
	verifrt.Assert(err == nil, "C12/trx-decisions/valid-transaction-accepted")
	verifrt.Assert(world.mutations == 1, "C12/trx-decisions/forged-self-entry-does-not-stop-processing")
	verifrt.Quiesce() // let the forwarding goroutines run
	if w.usedGenuineP {
		verifrt.Assert(forwards == 0, "C12/trx-decisions/not-forwarded-to-a-peer-that-signed")
	} else {
		verifrt.Assert(forwards == 1, "C12/trx-decisions/still-forwarded-to-a-peer-that-did-not-sign")
	}
	verifrt.Reach("C12/trx-decisions/end")
}
