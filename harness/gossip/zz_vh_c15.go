//go:build verif

package gossip

// C15 (gossip API): every RPC on every decodable request shape returns without panicking; a
// rejected request has changed neither the ledger double, the cache double nor the peer list.

import (
	"context"

	"google.golang.org/grpc"
	"google.golang.org/grpc/credentials/insecure"
	"google.golang.org/protobuf/types/known/emptypb"

	"github.com/bartossh/Computantis/src/protobufcompiled"
	"github.com/bartossh/Computantis/src/verifrt"
)

func VH_C15_gossip_alive() {
	g, w := vhGossiper()
	out, err := g.Alive(context.Background(), &emptypb.Empty{})
	verifrt.Assert(err == nil && out != nil, "C15/gossip/alive/answers")
	vhAfter(w, "alive", err)
}

// vhConn: an established client connection (natively a lazy, never-used real one).
func vhConn() *grpc.ClientConn {
	if verifrt.Native() {
		c, err := grpc.Dial("passthrough:///vh", grpc.WithTransportCredentials(insecure.NewCredentials()))
		if err != nil {
			panic(err)
		}
		return c
	}
	return new(grpc.ClientConn)
}

func vhConnData() *protobufcompiled.ConnectionData {
	return &protobufcompiled.ConnectionData{PublicAddress: vhStr("peer"), Url: vhStr("url"), CreatedAt: verifrt.NondetU64("created"),
		Digest: vhBytes("digest", 40), Signature: vhBytes("sig", 1)}
}

func VH_C15_gossip_announce() {
	g, w := vhGossiper()
	known := verifrt.Choose("peer.known", 2) == 1
	cd := vhConnData()
	if known {
		g.nodes[cd.PublicAddress] = nodeData{url: "old", conn: vhConn()}
	}
	before := len(g.nodes)
	_, err := g.Announce(context.Background(), cd)
	if err != nil && w.verifyFails > 0 {
		verifrt.Assert(len(g.nodes) == before, "C15/gossip/announce/refused-for-signature-keeps-peer-list")
	}
	vhAfter(w, "announce", err)
}

func VH_C15_gossip_discover() {
	g, w := vhGossiper()
	cd := vhConnData()
	before := len(g.nodes)
	_, err := g.Discover(context.Background(), cd)
	if err != nil {
		verifrt.Assert(len(g.nodes) == before, "C15/gossip/discover/rejected-keeps-peer-list")
	}
	vhAfter(w, "discover", err)
}

func VH_C15_gossip_vrx() {
	verifrt.CheckLeaks(true)
	g, w := vhGossiper()
	var in *protobufcompiled.VrxMsgGossip
	if verifrt.Choose("request.nil", 2) == 1 {
		in = &protobufcompiled.VrxMsgGossip{Vertex: vhProtoVertex(), Gossipers: vhGossipers()}
	}
	_, err := g.GossipVrx(context.Background(), in)
	vhAfter(w, "vrx", err)
}

func VH_C15_gossip_trx() {
	verifrt.CheckLeaks(true)
	g, w := vhGossiper()
	var in *protobufcompiled.TrxMsgGossip
	if verifrt.Choose("request.nil", 2) == 1 {
		in = &protobufcompiled.TrxMsgGossip{Trx: vhProtoTrx(), Gossipers: vhGossipers()}
	}
	_, err := g.GossipTrx(context.Background(), in)
	vhAfter(w, "trx", err)
}

func VH_C15_gossip_getvertex() {
	g, w := vhGossiper()
	in := &protobufcompiled.SignedHash{Address: vhStr("address"), Data: vhBytes("data", 40), Hash: vhBytes("hash", 40), Signature: vhBytes("signature", 1)}
	_, err := g.GetVertex(context.Background(), in)
	vhAfter(w, "getvertex", err)
}

// vhFetchClient answers GetVertex with an arbitrary decodable vertex (what a peer may send back).
type vhFetchClient struct {
	protobufcompiled.GossipAPIClient
}

func (vhFetchClient) GetVertex(ctx context.Context, in *protobufcompiled.SignedHash, opts ...grpc.CallOption) (*protobufcompiled.Vertex, error) {
	if verifrt.Choose("peer.answers", 2) == 0 {
		return nil, errVH
	}
	return vhProtoVertex(), nil
}

// VH_C15_gossip_lacking_parent: the receive side of the missing-parent fetch: whatever vertex the
// peer returns (absent, without transaction, short hashes) must not crash the node.
func VH_C15_gossip_lacking_parent() {
	verifrt.CheckLeaks(true)
	vhConcreteTimes = true
	g, w := vhGossiper()
	g.nodes["P"] = nodeData{url: "p", client: vhFetchClient{}}
	var h [32]byte
	h[0] = 7
	g.processLackingParent(context.Background(), h)
	verifrt.Assert(g.processingParentCount.Load() == 0, "C15/gossip/lacking-parent/counter-released")
	vhAfter(w, "lacking-parent", nil)
}
