//go:build verif

package gossip

// Test doubles for the gossip node's collaborators (nondeterministic answers, mutation counters).

import (
	"context"
	"errors"

	"github.com/bartossh/Computantis/src/accountant"
	"github.com/bartossh/Computantis/src/cache"
	"github.com/bartossh/Computantis/src/protobufcompiled"
	"github.com/bartossh/Computantis/src/spice"
	"github.com/bartossh/Computantis/src/transaction"
	"github.com/bartossh/Computantis/src/verifrt"
)

var errVH = errors.New("vh: refused")

type vhWorld struct {
	mutations   int
	verifyFails int
	addLeafs    int
	parked      int
}

type vhVerifier struct{ w *vhWorld }

func (v vhVerifier) Verify(message, signature []byte, hash [32]byte, address string) error {
	if verifrt.NondetBool("verify.ok") {
		return nil
	}
	v.w.verifyFails++
	return errVH
}

type vhSigner struct{}

func (vhSigner) Sign(message []byte) (digest [32]byte, signature []byte) {
	digest[0] = 0x5a
	return digest, []byte{1, 2}
}
func (vhSigner) Address() string { return "N" }

type vhAcc struct{ w *vhWorld }

func (a vhAcc) CreateGenesis(subject string, spc spice.Melange, data []byte, publicAddress string) (accountant.Vertex, error) {
	return accountant.Vertex{}, nil
}
func (a vhAcc) AddLeaf(ctx context.Context, leaf *accountant.Vertex) error {
	n := 3
	if a.w.parked >= 1 {
		n = 2 // a missing parent is reported at most once per run (keeps the parent-fetch recursion finite)
	}
	switch verifrt.Choose("addleaf", n) {
	case 0:
		a.w.mutations++
		a.w.addLeafs++
		return nil
	case 1:
		return accountant.ErrLeafRejected
	}
	a.w.parked++
	return accountant.ErrParentDoesNotExists
}
func (a vhAcc) StreamDAG(ctx context.Context) <-chan *accountant.Vertex { return nil }
func (a vhAcc) LoadDag(cancelF context.CancelCauseFunc, cVrx <-chan *accountant.Vertex) {
}
func (a vhAcc) DagLoaded() bool { return true }
func (a vhAcc) ReadVertex(ctx context.Context, h [32]byte) (accountant.Vertex, error) {
	if verifrt.NondetBool("readvertex.ok") {
		return accountant.Vertex{SignerPublicAddress: "P"}, nil
	}
	return accountant.Vertex{}, errVH
}

type vhCacheD struct{ w *vhWorld }

func (c vhCacheD) SaveAwaitedTransaction(trx *transaction.Transaction) error {
	c.w.mutations++
	return nil
}
func (c vhCacheD) RemoveAwaitedTransaction(hash [32]byte, address string) (transaction.Transaction, error) {
	if verifrt.NondetBool("cache.remove.found") {
		c.w.mutations++
		return transaction.Transaction{}, nil
	}
	return transaction.Transaction{}, cache.ErrTransactionNotFound
}
func (c vhCacheD) ReadTransactions(address string) ([]transaction.Transaction, error) {
	return nil, nil
}
func (c vhCacheD) SaveBalance(a string, s spice.Melange) error { c.w.mutations++; return nil }
func (c vhCacheD) ReadBalance(a string) (spice.Melange, error)  { return spice.Melange{}, errVH }
func (c vhCacheD) RemoveBalance(a string) error                 { c.w.mutations++; return nil }

type vhFlashD struct{ w *vhWorld }

func (f vhFlashD) HasHash(h []byte) (bool, error) {
	switch verifrt.Choose("flash.hashash", 3) {
	case 0:
		return false, errVH // the real Flashback reports an error for hashes that are not 32 bytes long
	case 1:
		return true, nil
	}
	return false, nil
}
func (f vhFlashD) RemoveAddress(a string) error { f.w.mutations++; return nil }

type vhLog struct{}

func (vhLog) Debug(string) {}
func (vhLog) Info(string)  {}
func (vhLog) Warn(string)  {}
func (vhLog) Error(string) {}
func (vhLog) Fatal(string) {}

func vhGossiper() (*gossiper, *vhWorld) {
	w := &vhWorld{}
	return &gossiper{
		accounter: vhAcc{w}, verifier: vhVerifier{w}, signer: vhSigner{}, log: vhLog{},
		trxCache: vhCacheD{w}, flash: vhFlashD{w}, nodes: map[string]nodeData{}, url: "u",
	}, w
}

// vhBytes: a bytes field of any length 0..max with arbitrary content (an absent field decodes as
// length 0; the handlers never compare bytes fields with nil, so nil and empty are one case).
func vhBytes(name string, max int) []byte {
	return verifrt.NondetBytes(name, 0, max)
}

// vhStr: a string field that is empty or one arbitrary byte.
func vhStr(name string) string { return verifrt.NondetString(name, 0, 1) }

var vhConcreteTimes bool // harnesses that map several vertices keep timestamps concrete (the time mapping is C19's subject)

func vhU64(name string) uint64 {
	if vhConcreteTimes {
		return 1700000000000000000
	}
	return verifrt.NondetU64(name)
}

func vhProtoTrx() *protobufcompiled.Transaction {
	if verifrt.Choose("trx.present", 2) == 0 {
		return nil
	}
	t := &protobufcompiled.Transaction{
		Subject: vhStr("subject"), Data: vhBytes("tdata", 1), Hash: vhBytes("thash", 40), CreatedAt: vhU64("tcreated"),
		ReceiverAddress: vhStr("receiver"), IssuerAddress: vhStr("issuer"),
		ReceiverSignature: vhBytes("rsig", 1), IssuerSignature: vhBytes("isig", 1),
	}
	if verifrt.Choose("spice.present", 2) == 1 {
		t.Spice = &protobufcompiled.Spice{Currency: verifrt.NondetU64("cur"), SupplementaryCurrency: verifrt.NondetU64("sup")}
	}
	return t
}

func vhProtoVertex() *protobufcompiled.Vertex {
	if verifrt.Choose("vertex.present", 2) == 0 {
		return nil
	}
	return &protobufcompiled.Vertex{
		SignerPublicAddress: vhStr("sealer"), CreatedAt: vhU64("vcreated"), Signature: vhBytes("vsig", 1),
		Transaction: vhProtoTrx(), Hash: vhBytes("vhash", 40), LeftParentHash: vhBytes("left", 40), RightParentHash: vhBytes("right", 40),
		Weight: verifrt.NondetU64("weight"),
	}
}

func vhGossipers() []*protobufcompiled.Gossiper {
	switch verifrt.Choose("gossipers", 3) {
	case 0:
		return nil
	case 1:
		return []*protobufcompiled.Gossiper{{Address: vhStr("gaddr"), Digest: vhBytes("gdigest", 40), Signature: vhBytes("gsig", 1)}}
	}
	return []*protobufcompiled.Gossiper{{Address: "N", Digest: vhBytes("gdigest", 40), Signature: vhBytes("gsig", 1)}, nil}
}

func vhAfter(w *vhWorld, name string, err error) {
	if err != nil {
		verifrt.Assert(w.mutations == 0, "C15/gossip/"+name+"/rejected-request-changes-nothing")
	}
	verifrt.Reach("C15/gossip/" + name + "/end")
}
