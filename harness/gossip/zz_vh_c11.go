//go:build verif

package gossip

// C11: gossip reaches every node exactly once and terminates. A virtual network of REAL gossiper
// structs: each node's peer map holds in-package clients that hand a deep copy of the message to the
// peer's real handler (GossipVrx / GetVertex) in the calling goroutine - the `go func` per peer in
// gossipVertex is the real one, so message delivery order = goroutine schedule, explored by the
// engine. Recent-hash memory = the real cache.Flashback (bigcache model); ledger = a double with the
// contract C03/C13 establish for the real one (admit once, then ErrLeafAlreadyExists; unknown parent
// -> ErrParentDoesNotExists and parked until the parent is admitted). Signatures are transparent
// (honest network; forgery is C12's subject).

import (
	"context"
	"errors"
	"time"

	"google.golang.org/grpc"
	"google.golang.org/protobuf/types/known/emptypb"

	"github.com/bartossh/Computantis/src/accountant"
	"github.com/bartossh/Computantis/src/cache"
	"github.com/bartossh/Computantis/src/pipe"
	"github.com/bartossh/Computantis/src/protobufcompiled"
	"github.com/bartossh/Computantis/src/spice"
	"github.com/bartossh/Computantis/src/transaction"
	"github.com/bartossh/Computantis/src/transformers"
	"github.com/bartossh/Computantis/src/verifrt"
)

type vhNetLedger struct {
	has     map[[32]byte]*accountant.Vertex
	admits  map[[32]byte]int
	offers  map[[32]byte]int // AddLeaf calls per vertex (whatever their outcome)
	parked  []*accountant.Vertex
	viaPark map[[32]byte]bool
}

func (l *vhNetLedger) CreateGenesis(subject string, spc spice.Melange, data []byte, publicAddress string) (accountant.Vertex, error) {
	return accountant.Vertex{}, nil
}
func (l *vhNetLedger) StreamDAG(ctx context.Context) <-chan *accountant.Vertex         { return nil }
func (l *vhNetLedger) LoadDag(cancelF context.CancelCauseFunc, c <-chan *accountant.Vertex) {}
func (l *vhNetLedger) DagLoaded() bool                                                  { return true }
func (l *vhNetLedger) parentsKnown(v *accountant.Vertex) bool {
	var zero [32]byte
	for _, p := range [][32]byte{v.LeftParentHash, v.RightParentHash} {
		if p != zero && l.has[p] == nil {
			return false
		}
	}
	return true
}
func (l *vhNetLedger) admit(v *accountant.Vertex) {
	c := *v
	l.has[v.Hash] = &c
	l.admits[v.Hash]++
	// parked children whose parents are now present are admitted by the retry loop
	for i := 0; i < len(l.parked); i++ {
		p := l.parked[i]
		if l.has[p.Hash] == nil && l.parentsKnown(p) {
			l.parked = append(l.parked[:i], l.parked[i+1:]...)
			l.viaPark[p.Hash] = true
			l.admit(p)
			i = -1
		}
	}
}
func (l *vhNetLedger) AddLeaf(ctx context.Context, leaf *accountant.Vertex) error {
	l.offers[leaf.Hash]++
	if l.has[leaf.Hash] != nil {
		return accountant.ErrLeafAlreadyExists
	}
	if !l.parentsKnown(leaf) {
		c := *leaf
		l.parked = append(l.parked, &c)
		return accountant.ErrParentDoesNotExists
	}
	l.admit(leaf)
	return nil
}
func (l *vhNetLedger) ReadVertex(ctx context.Context, h [32]byte) (accountant.Vertex, error) {
	if v := l.has[h]; v != nil {
		return *v, nil
	}
	return accountant.Vertex{}, accountant.ErrVertexHashNotfound
}

type vhNetCache struct {
	vhCacheD
	saves *int
}

func (c vhNetCache) SaveAwaitedTransaction(trx *transaction.Transaction) error {
	*c.saves++
	if *c.saves > 1 {
		return cache.ErrTrxAlreadyExists
	}
	return nil
}

func (vhNetCache) RemoveAwaitedTransaction(hash [32]byte, address string) (transaction.Transaction, error) {
	return transaction.Transaction{}, cache.ErrTransactionNotFound
}
func (vhNetCache) RemoveBalance(a string) error { return nil }

// transparent signatures: a node's signature is its address; the verifier accepts exactly that.
type vhNetSigner struct{ addr string }

func (s vhNetSigner) Sign(message []byte) (digest [32]byte, signature []byte) {
	digest[0] = 0x11
	return digest, []byte(s.addr)
}
func (s vhNetSigner) Address() string { return s.addr }

type vhNetVerifier struct{}

var errVhNet = errors.New("vh: bad signature")

func (vhNetVerifier) Verify(message, signature []byte, hash [32]byte, address string) error {
	if string(signature) == address {
		return nil
	}
	return errVhNet
}

type vhNet struct {
	nodes    []*gossiper
	ledgers  []*vhNetLedger
	messages int
	early    bool // somebody forwarded an item its own ledger had not accepted
	// one directed link on which messages are held back until the harness releases them
	delayFrom, delayTo int
	release            chan struct{}
	// awaited-transaction gossip: messages per directed link, and the first message sent (for a late duplicate)
	trxSent  map[[2]int]int
	firstTrx *protobufcompiled.TrxMsgGossip
	firstTo  int
}

func vhCopyTrxMsg(in *protobufcompiled.TrxMsgGossip) *protobufcompiled.TrxMsgGossip {
	out := &protobufcompiled.TrxMsgGossip{Trx: vhWireVertex(&protobufcompiled.Vertex{Transaction: in.Trx}).Transaction}
	for _, g := range in.Gossipers {
		out.Gossipers = append(out.Gossipers, &protobufcompiled.Gossiper{Address: g.Address, Digest: append([]byte{}, g.Digest...), Signature: append([]byte{}, g.Signature...)})
	}
	return out
}

func (c vhNetClient) GossipTrx(ctx context.Context, in *protobufcompiled.TrxMsgGossip, opts ...grpc.CallOption) (*emptypb.Empty, error) {
	if c.net.trxSent == nil {
		c.net.trxSent = map[[2]int]int{}
	}
	c.net.trxSent[[2]int{c.from, c.to}]++
	if c.net.release != nil && c.from == c.net.delayFrom && c.to == c.net.delayTo {
		<-c.net.release
	}
	if c.net.firstTrx == nil {
		c.net.firstTrx, c.net.firstTo = vhCopyTrxMsg(in), c.to
	}
	return c.net.nodes[c.to].GossipTrx(ctx, vhCopyTrxMsg(in))
}

type vhPipe struct {
	trx chan *protobufcompiled.Transaction
	vrx chan *accountant.Vertex
}

func (p vhPipe) SubscribeToTrx() <-chan *protobufcompiled.Transaction { return p.trx }
func (p vhPipe) SubscribeToVrx() <-chan *accountant.Vertex             { return p.vrx }

// originateTrx: the notary hands an accepted transaction to the pipe; the REAL runTransactionGossipProcess of
// the origin node picks it up, signs it and gossips it.
func (net *vhNet) originateTrx(o int, tx *protobufcompiled.Transaction) {
	g := net.nodes[o]
	pipe := vhPipe{trx: make(chan *protobufcompiled.Transaction, 1), vrx: make(chan *accountant.Vertex)}
	g.piper = pipe
	ctx, cancel := context.WithCancel(context.Background())
	go g.runTransactionGossipProcess(ctx)
	pipe.trx <- tx
	verifrt.Settle() // the origin's gossip loop takes the transaction and starts one goroutine per peer; delivery order is the scheduler's
	cancel()
}

func (net *vhNet) vhTrxChecks(o int, where string) {
	for i := range net.nodes {
		if i != o {
			verifrt.Assert(*net.nodes[i].trxCache.(vhNetCache).saves == 1, "C11/trx/"+where+"/every-other-node-stores-it-exactly-once")
		}
	}
	for _, k := range net.trxSent {
		verifrt.Assert(k <= 1, "C11/trx/"+where+"/sent-at-most-once-per-link-within-the-window")
	}
}

// VH_C11_trx: an awaited transaction gossiped from one node of every connected 3-node network (optionally one
// delayed link); then the vertex sealing it is gossiped and admitted everywhere; then a late duplicate of the
// first transaction message arrives: still stored once per node and sent at most once per link.
func VH_C11_trx() {
	n := 3
	net := vhNetwork(n)
	if net == nil {
		return
	}
	o := verifrt.Choose("origin", n)
	if d := verifrt.Choose("delayed-link", 7); d > 0 {
		net.delayFrom, net.delayTo = (d-1)/2, (d-1)%2
		if net.delayTo >= net.delayFrom {
			net.delayTo++
		}
		if _, linked := net.nodes[net.delayFrom].nodes[vhNames[net.delayTo]]; !linked {
			return
		}
		net.release = make(chan struct{})
	}
	v := vhNetVertex(0, nil)
	v.Transaction.CreatedAt, v.CreatedAt = time.Unix(1700000000, 0), time.Unix(1700000001, 0)
	v.Transaction.Data = []byte{1}
	v.Transaction.IssuerSignature = []byte(v.Transaction.IssuerAddress) // transparent signatures
	pt, err := transformers.TrxToProtoTrx(v.Transaction)
	verifrt.Assert(err == nil, "C11/trx/setup")
	net.originateTrx(o, pt)
	verifrt.Quiesce()
	if net.release != nil {
		close(net.release)
		verifrt.Quiesce()
	}
	net.vhTrxChecks(o, "gossiped")
	// the transaction is sealed in a vertex, which is gossiped and admitted everywhere
	net.originate(o, v)
	verifrt.Quiesce()
	for i := 0; i < n; i++ {
		verifrt.Assert(net.ledgers[i].admits[v.Hash] == 1, "C11/trx/sealing-vertex-admitted-everywhere")
	}
	// a delayed duplicate of the first transaction message arrives inside the suppression window
	if net.firstTrx != nil {
		net.nodes[net.firstTo].GossipTrx(context.Background(), vhCopyTrxMsg(net.firstTrx))
		verifrt.Quiesce()
	}
	net.vhTrxChecks(o, "late-duplicate")
	verifrt.Reach("C11/trx/end")
}


type vhNetClient struct {
	protobufcompiled.GossipAPIClient
	net      *vhNet
	from, to int
}

func vhCopyVrxMsg(in *protobufcompiled.VrxMsgGossip) *protobufcompiled.VrxMsgGossip {
	out := &protobufcompiled.VrxMsgGossip{Vertex: vhWireVertex(in.Vertex)}
	for _, g := range in.Gossipers {
		out.Gossipers = append(out.Gossipers, &protobufcompiled.Gossiper{Address: g.Address, Digest: append([]byte{}, g.Digest...), Signature: append([]byte{}, g.Signature...)})
	}
	return out
}

func (c vhNetClient) GossipVrx(ctx context.Context, in *protobufcompiled.VrxMsgGossip, opts ...grpc.CallOption) (*emptypb.Empty, error) {
	if c.net.release != nil && c.from == c.net.delayFrom && c.to == c.net.delayTo {
		<-c.net.release // the message is in flight but arrives late
	}
	c.net.messages++
	if c.net.ledgers[c.from].has[[32]byte(in.Vertex.Hash)] == nil {
		c.net.early = true
	}
	return c.net.nodes[c.to].GossipVrx(ctx, vhCopyVrxMsg(in))
}

func (c vhNetClient) GetVertex(ctx context.Context, in *protobufcompiled.SignedHash, opts ...grpc.CallOption) (*protobufcompiled.Vertex, error) {
	return c.net.nodes[c.to].GetVertex(ctx, in)
}

var vhNames = []string{"A", "B", "C", "D"}

var vhForcedLinks map[string]int // a fixed topology instead of the enumerated one

func vhLink(name string) int {
	if vhForcedLinks != nil {
		return vhForcedLinks[name]
	}
	return verifrt.Choose(name, 2)
}

// vhNetwork builds n nodes with a symbolic (enumerated) set of links; returns nil unless connected.
func vhNetwork(n int) *vhNet {
	net := &vhNet{}
	for i := 0; i < n; i++ {
		fl, err := cache.NewFlash()
		if err != nil {
			panic(err)
		}
		led := &vhNetLedger{has: map[[32]byte]*accountant.Vertex{}, admits: map[[32]byte]int{}, offers: map[[32]byte]int{}, viaPark: map[[32]byte]bool{}}
		net.ledgers = append(net.ledgers, led)
		net.nodes = append(net.nodes, &gossiper{accounter: led, verifier: vhNetVerifier{}, signer: vhNetSigner{vhNames[i]}, log: vhLog{},
			trxCache: vhNetCache{saves: new(int)}, flash: fl, nodes: map[string]nodeData{}, url: vhNames[i]})
	}
	adj := make([][]bool, n)
	for i := range adj {
		adj[i] = make([]bool, n)
	}
	for i := 0; i < n; i++ {
		for j := i + 1; j < n; j++ {
			if vhLink("link"+vhNames[i]+vhNames[j]) == 1 {
				adj[i][j], adj[j][i] = true, true
				net.nodes[i].nodes[vhNames[j]] = nodeData{url: vhNames[j], client: vhNetClient{net: net, from: i, to: j}}
				net.nodes[j].nodes[vhNames[i]] = nodeData{url: vhNames[i], client: vhNetClient{net: net, from: j, to: i}}
			}
		}
	}
	seen := make([]bool, n)
	stack := []int{0}
	seen[0] = true
	for len(stack) > 0 {
		x := stack[len(stack)-1]
		stack = stack[:len(stack)-1]
		for y := 0; y < n; y++ {
			if adj[x][y] && !seen[y] {
				seen[y] = true
				stack = append(stack, y)
			}
		}
	}
	for _, s := range seen {
		if !s {
			return nil
		}
	}
	return net
}

func vhNetVertex(i int, parent *accountant.Vertex) *accountant.Vertex {
	v := &accountant.Vertex{SignerPublicAddress: "S", Signature: []byte{1}, Weight: uint64(i)}
	v.Hash[0], v.Hash[1] = byte(i+1), 0xC1
	v.Transaction.Hash[0], v.Transaction.Hash[1] = byte(i+1), 0xC2
	v.Transaction.Subject, v.Transaction.IssuerAddress, v.Transaction.ReceiverAddress = "s", "i", "r"
	v.Transaction.IssuerSignature = []byte{1}
	if parent != nil {
		v.LeftParentHash, v.RightParentHash = parent.Hash, parent.Hash
	}
	return v
}

// originate: what runVertexGossipProcess does for a vertex its own ledger just sealed.
func (net *vhNet) originate(o int, v *accountant.Vertex) {
	g := net.nodes[o]
	net.ledgers[o].admit(v)
	vp := mapAccountantVertexToProtoVertex(v)
	digest, signature := g.signer.Sign(createGossiperMessageToSign(g.signer.Address(), v.Hash))
	me := &protobufcompiled.Gossiper{Address: g.signer.Address(), Digest: digest[:], Signature: signature}
	vg := &protobufcompiled.VrxMsgGossip{Vertex: vp, Gossipers: []*protobufcompiled.Gossiper{me}}
	g.gossipVertex(context.Background(), vg, map[string]*protobufcompiled.Gossiper{g.signer.Address(): me})
}

// vhOfferedOnce: the origin stays listed as a verified gossiper in every copy, so nobody ever sends the item
// back to it: its ledger is never offered its own vertex. (Other ledgers CAN be offered a vertex twice when two
// copies arrive together - the recent-hash memory's check-then-set is not atomic - and reject the second offer
// as a duplicate; "admitted exactly once" is what the property states and what the callers assert.)
func (net *vhNet) vhOfferedOnce(origin int, v *accountant.Vertex, where string) {
	verifrt.Assert(net.ledgers[origin].offers[v.Hash] == 0, "C11/"+where+"/origin-never-offered-its-own-vertex")
}

func vhC11Nodes() int { return 3 }

func vhC11Preemptions() int {
	if verifrt.Thorough() {
		return 2
	}
	return 1
}

// VH_C11_single: one vertex, every connected topology, every origin, all delivery orders within the
// preemption bound.
func VH_C11_single() {
	n := vhC11Nodes()
	net := vhNetwork(n)
	if net == nil {
		return
	}
	o := verifrt.Choose("origin", n)
	verifrt.ExploreSchedules(vhC11Preemptions())
	v := vhNetVertex(0, nil)
	net.originate(o, v)
	verifrt.Settle()
	for i := 0; i < n; i++ {
		verifrt.Assert(net.ledgers[i].admits[v.Hash] == 1, "C11/single/every-node-admits-exactly-once")
	}
	net.vhOfferedOnce(o, v, "single")
	verifrt.Assert(!net.early, "C11/single/forwarded-only-after-own-ledger-accepted")
	verifrt.Assert(net.messages <= n*(n-1), "C11/single/message-count-bounded")
	verifrt.Reach("C11/single/end")
}

// VH_C11_path4: ALL connected 4-node topologies, every origin, and one arbitrary directed link whose
// messages are delayed until everything else has been delivered (or no delayed link).
func VH_C11_path4() {
	net := vhNetwork(4)
	if net == nil {
		return
	}
	o := verifrt.Choose("origin", 4)
	if d := verifrt.Choose("delayed-link", 13); d > 0 {
		net.delayFrom, net.delayTo = (d-1)/3, (d-1)%3
		if net.delayTo >= net.delayFrom {
			net.delayTo++
		}
		if _, linked := net.nodes[net.delayFrom].nodes[vhNames[net.delayTo]]; !linked {
			return
		}
		net.release = make(chan struct{})
	}
	v := vhNetVertex(0, nil)
	net.originate(o, v)
	verifrt.Quiesce()
	if net.release != nil {
		close(net.release)
		verifrt.Quiesce()
	}
	for i := 0; i < 4; i++ {
		verifrt.Assert(net.ledgers[i].admits[v.Hash] == 1, "C11/four/every-node-admits-exactly-once")
	}
	net.vhOfferedOnce(o, v, "four")
	verifrt.Assert(!net.early, "C11/four/forwarded-only-after-own-ledger-accepted")
	verifrt.Assert(net.messages <= 12, "C11/four/message-count-bounded")
	verifrt.Reach("C11/four/end")
}

// VH_C11_ring4: the 4-cycle A-B-C-D-A (the smallest topology in which a copy can travel around and come
// back to a node that already signed), optionally with one chord; every origin, EVERY delivery order of the
// forwarding goroutines (non-preemptive schedules, exhaustive).
func VH_C11_ring4() {
	vhForcedLinks = map[string]int{"linkAB": 1, "linkBC": 1, "linkCD": 1, "linkAD": 1, "linkAC": verifrt.Choose("chordAC", 2), "linkBD": 0}
	net := vhNetwork(4)
	vhForcedLinks = nil
	o := verifrt.Choose("origin", 4)
	verifrt.ExploreSchedules(0)
	if !verifrt.Thorough() {
		verifrt.SearchBudget(3000) // quick: a bounded search; thorough: exhaustive (about 300000 schedules)
	}
	v := vhNetVertex(0, nil)
	net.originate(o, v)
	verifrt.Settle()
	for i := 0; i < 4; i++ {
		verifrt.Assert(net.ledgers[i].admits[v.Hash] == 1, "C11/ring/every-node-admits-exactly-once")
	}
	net.vhOfferedOnce(o, v, "ring")
	verifrt.Assert(!net.early, "C11/ring/forwarded-only-after-own-ledger-accepted")
	verifrt.Assert(net.messages <= 12, "C11/ring/message-count-bounded")
	verifrt.Reach("C11/ring/end")
}

// VH_C11_parent_child: a parent and its child originated at one node; the child may overtake the parent.
func VH_C11_parent_child() {
	n := 3
	net := vhNetwork(n)
	if net == nil {
		return
	}
	o := verifrt.Choose("origin", n)
	verifrt.ExploreSchedules(1)
	verifrt.SearchBudget(8000) // two items in flight: a bounded search (a known finding lives here)
	p := vhNetVertex(0, nil)
	c := vhNetVertex(1, p)
	net.originate(o, p)
	net.originate(o, c)
	verifrt.Quiesce()
	verifrt.Assert(!net.early, "C11/parent-child/forwarded-only-after-own-ledger-accepted")
	viaPark := false
	for i := 0; i < n; i++ {
		verifrt.Assert(net.ledgers[i].admits[p.Hash] <= 1 && net.ledgers[i].admits[c.Hash] <= 1, "C11/parent-child/nothing-admitted-twice")
		if net.ledgers[i].viaPark[c.Hash] {
			viaPark = true
		}
	}
	for i := 0; i < n; i++ {
		all := net.ledgers[i].admits[p.Hash] == 1 && net.ledgers[i].admits[c.Hash] == 1
		if viaPark {
			// some node obtained the child through the parked / parent-fetch path, which does not forward
			verifrt.Assert(all, "C11/parent-child/parked-path/every-node-admits-both")
		} else {
			verifrt.Assert(all, "C11/parent-child/every-node-admits-both")
		}
	}
	verifrt.Reach("C11/parent-child/end")
}

// VH_C11_trx_orders: the awaited transaction alone on the smallest network in which a node with a further
// peer can receive two copies at the same moment (A-C, A-D, C-D and the tail C-B), every origin, ALL delivery
// orders within one preemption: a node forwards the transaction at most once per link within the window.
func VH_C11_trx_orders() {
	n := 4
	vhForcedLinks = map[string]int{"linkAB": 0, "linkAC": 1, "linkAD": 1, "linkBC": 1, "linkBD": 0, "linkCD": 1}
	net := vhNetwork(n)
	vhForcedLinks = nil
	o := verifrt.Choose("origin", n)
	verifrt.ExploreSchedules(1)
	v := vhNetVertex(0, nil)
	v.Transaction.CreatedAt = time.Unix(1700000000, 0)
	v.Transaction.Data = []byte{1}
	v.Transaction.IssuerSignature = []byte(v.Transaction.IssuerAddress)
	pt, err := transformers.TrxToProtoTrx(v.Transaction)
	verifrt.Assert(err == nil, "C11/trx-orders/setup")
	net.originateTrx(o, pt)
	verifrt.Settle()
	for i := range net.nodes {
		if i != o {
			verifrt.Assert(*net.nodes[i].trxCache.(vhNetCache).saves >= 1, "C11/trx-orders/every-other-node-stores-it")
		}
	}
	for _, k := range net.trxSent {
		verifrt.Assert(k <= 1, "C11/trx-orders/sent-at-most-once-per-link-within-the-window")
	}
	verifrt.Reach("C11/trx-orders/end")
}

// VH_C11_origin_pipe: a burst of items accepted at the origin, larger than the pipe's buffer, before the gossip
// loops get to drain it: the REAL pipe.Juggler and the REAL runVertexGossipProcess / runTransactionGossipProcess
// deliver every one of them to the peer.
func VH_C11_origin_pipe() {
	vhForcedLinks = map[string]int{"linkAB": 1}
	net := vhNetwork(2)
	vhForcedLinks = nil
	g := net.nodes[0]
	p := pipe.New(1, 1)
	g.piper = p
	ctx, cancel := context.WithCancel(context.Background())
	go g.runVertexGossipProcess(ctx)
	go g.runTransactionGossipProcess(ctx)
	const burst = 3
	var vs []*accountant.Vertex
	for i := 0; i < burst; i++ {
		v := vhNetVertex(i, nil)
		v.Transaction.CreatedAt, v.CreatedAt = time.Unix(1700000000+int64(i), 0), time.Unix(1700000100+int64(i), 0)
		v.Transaction.Data = []byte{1}
		v.Transaction.IssuerSignature = []byte(v.Transaction.IssuerAddress)
		vs = append(vs, v)
		net.ledgers[0].admit(v) // sealed by the origin's ledger, then handed to the pipe (what the notary does)
		p.SendVrx(v)
		t := vhNetVertex(10+i, nil).Transaction
		t.CreatedAt, t.Data, t.IssuerSignature = time.Unix(1700000200+int64(i), 0), []byte{2}, []byte(t.IssuerAddress)
		pt, err := transformers.TrxToProtoTrx(t)
		verifrt.Assert(err == nil, "C11/origin-pipe/setup")
		p.SendTrx(pt)
	}
	verifrt.Quiesce()
	cancel()
	for _, v := range vs {
		verifrt.Assert(net.ledgers[1].admits[v.Hash] == 1, "C11/origin-pipe/every-accepted-vertex-reaches-the-peer")
	}
	verifrt.Assert(net.trxSent[[2]int{0, 1}] == burst, "C11/origin-pipe/every-accepted-transaction-reaches-the-peer")
	verifrt.Reach("C11/origin-pipe/end")
}
