//go:build verif

package cache

// C17: the awaiting-transaction index against a map-based model. Sequential: every sequence of up to
// 3 (quick) / 4 (thorough) save / remove / read calls over 3 transactions whose issuer and receiver
// are symbolic among two addresses (so issuer = receiver, shared receivers etc. are all covered).
// Concurrent: every pair of calls under all schedules within the preemption bound.

import (
	"sync"
	"time"

	"github.com/bartossh/Computantis/src/spice"
	"github.com/bartossh/Computantis/src/transaction"
	"github.com/bartossh/Computantis/src/verifrt"
)

var vhCache *Hippocampus // natively bigcache.New takes ~1.5 s: one instance, unique keys per run

func vhNewCache() *Hippocampus {
	h, err := New(4096, 8)
	if err != nil {
		panic(err)
	}
	return h
}

func vhAddr(name string) string {
	s := verifrt.NondetString(name, 1, 1)
	verifrt.Assume(verifrt.Or(s == "X", s == "Y"))
	return s
}

func vhTrx(i int, iss, rcv string) *transaction.Transaction {
	t := &transaction.Transaction{CreatedAt: time.Unix(1700000000+int64(i), 0), IssuerAddress: iss, ReceiverAddress: rcv,
		Subject: "s", Data: []byte{byte(i)}, IssuerSignature: []byte{1}, Spice: spice.New(uint64(i), 0)}
	t.Hash[0], t.Hash[1] = byte(i+1), 0x33
	return t
}

type vhModel struct {
	trxs     []*transaction.Transaction
	awaiting []bool
}

func (m *vhModel) listed(i int, addr string) bool {
	return verifrt.And(m.awaiting[i], verifrt.Or(m.trxs[i].IssuerAddress == addr, m.trxs[i].ReceiverAddress == addr))
}

// vhCheckListing: ReadTransactions(addr) lists exactly the model's awaiting transactions of addr.
func vhCheckListing(h *Hippocampus, m *vhModel, addr, pfx string) {
	got, err := h.ReadTransactions(addr)
	any := false
	for i := range m.trxs {
		want := m.listed(i, addr)
		any = verifrt.Or(any, want)
		n := 0
		for _, g := range got {
			if g.Hash == m.trxs[i].Hash {
				n++
				verifrt.Assert(g.IssuerAddress == m.trxs[i].IssuerAddress && g.ReceiverAddress == m.trxs[i].ReceiverAddress && g.Spice == m.trxs[i].Spice, pfx+"/listed-transaction-intact")
			}
		}
		verifrt.Assert(n <= 1, pfx+"/listed-at-most-once")
		verifrt.Assert((n == 1) == want, pfx+"/listed-iff-awaiting-for-this-address")
	}
	if err != nil {
		verifrt.Assert(!any, pfx+"/error-only-when-nothing-awaits")
	}
}

func vhSeqLen() int {
	if verifrt.Thorough() {
		return 4
	}
	return 3
}

func VH_C17_sequences() {
	h := vhNewCache()
	m := &vhModel{}
	for i := 0; i < 3; i++ {
		m.trxs = append(m.trxs, vhTrx(i, vhAddr("iss"+verifrt.Itoa(i)), vhAddr("rcv"+verifrt.Itoa(i))))
		m.awaiting = append(m.awaiting, false)
	}
	for step := 0; step < vhSeqLen(); step++ {
		i := verifrt.Choose("trx"+verifrt.Itoa(step), 3)
		switch verifrt.Choose("op"+verifrt.Itoa(step), 3) {
		case 0:
			err := h.SaveAwaitedTransaction(m.trxs[i])
			if m.awaiting[i] {
				verifrt.Assert(err == ErrTrxAlreadyExists, "C17/seq/duplicate-save-refused")
			} else {
				verifrt.Assert(err == nil, "C17/seq/save-succeeds")
				m.awaiting[i] = true
			}
		case 1:
			who := vhAddr("who" + verifrt.Itoa(step))
			t, err := h.RemoveAwaitedTransaction(m.trxs[i].Hash, who)
			switch {
			case !m.awaiting[i]:
				verifrt.Assert(err != nil, "C17/seq/remove-of-absent-fails")
			case who != m.trxs[i].ReceiverAddress:
				verifrt.Assert(err != nil, "C17/seq/only-the-receiver-removes")
			default:
				verifrt.Assert(t.Hash == m.trxs[i].Hash, "C17/seq/remove-returns-the-transaction")
				m.awaiting[i] = false
			}
		case 2:
			vhCheckListing(h, m, vhAddr("reader"+verifrt.Itoa(step)), "C17/seq/read")
		}
	}
	vhCheckListing(h, m, "X", "C17/seq/final-X")
	vhCheckListing(h, m, "Y", "C17/seq/final-Y")
	verifrt.Reach("C17/seq/end")
}

func vhC17Preemptions() int {
	if verifrt.Thorough() {
		return 2
	}
	return 1
}

// VH_C17_pairs: two calls run concurrently on addresses that may or may not coincide (same receiver, same
// issuer with different receivers, crossed, self-addressed ...), from a cache where a third transaction
// awaits, was saved and removed again (leaving an emptied list under its addresses), or was never saved;
// afterwards the listing of both addresses equals saved minus removed.
func VH_C17_pairs() {
	h := vhNewCache()
	m := &vhModel{}
	m.trxs = []*transaction.Transaction{vhTrx(0, vhAddr("iss0"), vhAddr("rcv0")), vhTrx(1, vhAddr("iss1"), vhAddr("rcv1")), vhTrx(2, "X", vhAddr("rcv2"))}
	m.awaiting = []bool{false, false, false}
	setup := verifrt.Choose("setup", 3)
	if setup < 2 {
		verifrt.Assert(h.SaveAwaitedTransaction(m.trxs[2]) == nil, "C17/pair/setup")
		m.awaiting[2] = true
	}
	if setup == 1 {
		_, err := h.RemoveAwaitedTransaction(m.trxs[2].Hash, m.trxs[2].ReceiverAddress)
		verifrt.Assert(err == nil, "C17/pair/setup-remove")
		m.awaiting[2] = false
	}
	kind := verifrt.Choose("pair", 4) // 3: the SAME transaction saved by two callers at once
	if kind == 1 && setup != 0 {
		return
	}
	reader := "X"
	if kind == 2 {
		reader = vhAddr("reader")
	}
	verifrt.ExploreSchedules(vhC17Preemptions())
	var wg sync.WaitGroup
	var e1, e2 error
	wg.Add(2)
	go func() {
		defer wg.Done()
		e1 = h.SaveAwaitedTransaction(m.trxs[0])
	}()
	go func() {
		defer wg.Done()
		switch kind {
		case 0:
			e2 = h.SaveAwaitedTransaction(m.trxs[1])
		case 1:
			_, e2 = h.RemoveAwaitedTransaction(m.trxs[2].Hash, m.trxs[2].ReceiverAddress)
		case 2:
			h.ReadTransactions(reader)
		case 3:
			e2 = h.SaveAwaitedTransaction(m.trxs[0])
		}
	}()
	wg.Wait()
	if kind == 3 {
		verifrt.Assert((e1 == nil) != (e2 == nil), "C17/pair/duplicate-save-succeeds-exactly-once")
	} else {
		verifrt.Assert(e1 == nil, "C17/pair/save-succeeds")
	}
	m.awaiting[0] = true
	switch kind {
	case 0:
		verifrt.Assert(e2 == nil, "C17/pair/second-save-succeeds")
		m.awaiting[1] = true
	case 1:
		verifrt.Assert(e2 == nil, "C17/pair/remove-succeeds")
		m.awaiting[2] = false
	}
	vhCheckListing(h, m, "X", "C17/pair/final-X")
	vhCheckListing(h, m, "Y", "C17/pair/final-Y")
	verifrt.Reach("C17/pair/end")
}
