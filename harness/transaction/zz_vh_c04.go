//go:build verif

package transaction

// C04-H1: the signed encoding of a transaction binds its fields. Two transactions with the same
// signed message: t has a fixed small shape (symbolic content), t' has any shape in the bound.

import (
	"time"

	"github.com/bartossh/Computantis/src/spice"
	"github.com/bartossh/Computantis/src/verifrt"
)

func VH_C04_message_injective() {
	t := Transaction{
		CreatedAt: time.Unix(0, verifrt.NondetI64("created")), IssuerAddress: verifrt.NondetString("issuer", 1, 1), ReceiverAddress: verifrt.NondetString("receiver", 1, 1),
		Subject: verifrt.NondetString("subject", 2, 2), Data: verifrt.NondetBytes("data", 1, 1),
		Spice: spice.Melange{Currency: verifrt.NondetU64("cur"), SupplementaryCurrency: verifrt.NondetU64("sup")},
	}
	u := Transaction{
		CreatedAt: time.Unix(0, verifrt.NondetI64("created'")), IssuerAddress: verifrt.NondetString("issuer'", 0, 2), ReceiverAddress: verifrt.NondetString("receiver'", 0, 2),
		Subject: verifrt.NondetString("subject'", 0, 3), Data: verifrt.NondetBytes("data'", 0, 3),
		Spice: spice.Melange{Currency: verifrt.NondetU64("cur'"), SupplementaryCurrency: verifrt.NondetU64("sup'")},
	}
	mt, mu := t.GetMessage(), u.GetMessage()
	verifrt.Assume(string(mt) == string(mu))
	// the numeric tail is fixed-width: time and amount are bound
	verifrt.Assert(t.CreatedAt.UnixNano() == u.CreatedAt.UnixNano(), "C04/message/created-at-bound")
	verifrt.Assert(t.Spice == u.Spice, "C04/message/spice-bound")
	// the variable-length head is a plain concatenation (so its content is bound by construction) ...
	verifrt.Assert(len(t.Subject)+len(t.Data)+len(t.IssuerAddress)+len(t.ReceiverAddress) == len(u.Subject)+len(u.Data)+len(u.IssuerAddress)+len(u.ReceiverAddress), "C04/message/text-length-bound")
	// ... but not where one field ends and the next begins (no length prefixes)
	verifrt.Assert(t.Subject == u.Subject && string(t.Data) == string(u.Data) && t.IssuerAddress == u.IssuerAddress && t.ReceiverAddress == u.ReceiverAddress,
		"C04/message/field-boundaries-bound")
	verifrt.Reach("C04/message/end")
}
