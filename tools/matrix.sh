#!/bin/bash
# matrix.sh <outfile> <seeded-dir>... : runs, for every seeded defect, the quick check of its property (and
# of the properties listed in its cross file) against a scratch worktree with the patch applied.
# Never touches /repo's working tree.
OUT=$1; shift
export GOFLAGS=-mod=mod GOPROXY=off GOSUMDB=off GOTOOLCHAIN=local
for D in "$@"; do
  D=$(realpath $D)
  name=$(basename $D)
  prop=$(python3 -c "import json;print(json.load(open('$D/meta.json'))['property'])")
  WT=$(mktemp -d /tmp/matrix-$name-XXXX); rmdir $WT
  git -C /repo worktree add -q --detach $WT HEAD || continue
  if ! git -C $WT apply $D/patch.diff 2>/dev/null; then echo "$name $prop PATCH-DOES-NOT-APPLY" >> $OUT; git -C /repo worktree remove --force $WT; continue; fi
  props="$prop $(cat $D/cross 2>/dev/null)"
  for p in $props; do
    GOSYM_CEX_DIR=/tmp/matrix-cex GOSYM_REPO=$WT timeout 2400 /verif/bin/gosym check $p --tier quick --evidence /tmp/matrix-ev-$name-$p.json > /tmp/matrix-$name-$p.log 2>&1
    ec=$?
    nv=$(grep -c "^VIOLATION" /tmp/matrix-$name-$p.log)
    echo "$name target=$prop check=$p exit=$ec violations=$nv $(grep '^VIOLATION' /tmp/matrix-$name-$p.log | head -2 | sed 's/.*replay=.*cex.//' | tr '\n' ' ')" >> $OUT
    rm -f /tmp/matrix-ev-$name-$p.json
  done
  git -C /repo worktree remove --force $WT 2>/dev/null; rm -rf $WT
done
echo DONE >> $OUT
