#!/usr/bin/env python3
"""matrix_md.py <matrix.out> : writes /verif/seeded/MATRIX.md from the raw output of tools/matrix.sh."""
import json, os, sys, collections
ROOT = os.path.dirname(os.path.dirname(os.path.abspath(__file__)))
rows = collections.OrderedDict()
for line in open(sys.argv[1]):
    f = line.split()
    if len(f) < 4 or not f[1].startswith("target="):
        continue
    name, target = f[0], f[1].split("=")[1]
    check, ec, nv = f[2].split("=")[1], int(f[3].split("=")[1]), int(f[4].split("=")[1])
    harn = sorted({x.split("/")[-1].rsplit("-", 1)[0] for x in f[5:]})
    rows.setdefault(name, {"target": target, "runs": []})["runs"].append((check, ec, nv, harn))
out = ["# Seeded defects x checks", "",
       "Raw data: the run of `tools/matrix.sh` over every directory of `/verif/seeded/` (each patch applied in a scratch",
       "worktree of /repo HEAD, never in /repo; quick tier; `exit=1` = VIOLATION printed after native replay, `exit=2` =",
       "inconclusive, `exit=0` = not detected by that check). `own` = the check of the property the change was written",
       "against; `cross` = another property's check listed in the directory's `cross` file because the change breaks",
       "that property as well (or only shows through it).", "",
       "| seeded | property | what the change does | own check | cross checks | detected by (harnesses) |", "|---|---|---|---|---|---|"]
det = miss = 0
for name, r in rows.items():
    meta = {}
    try:
        meta = json.load(open(os.path.join(ROOT, "seeded", name, "meta.json")))
    except Exception:
        pass
    what = (meta.get("summary") or meta.get("description") or meta.get("what") or "").replace("|", "/").replace("\n", " ")
    if len(what) > 160:
        what = what[:157] + "..."
    own = [x for x in r["runs"] if x[0] == r["target"]]
    cross = [x for x in r["runs"] if x[0] != r["target"]]
    fmt = lambda x: f"{x[0]}: exit {x[1]}" + (f" ({x[2]} violations)" if x[2] else "")
    harn = sorted({h for x in r["runs"] if x[1] == 1 for h in x[3]})
    caught = any(x[1] == 1 for x in r["runs"])
    det += caught
    miss += not caught
    out.append(f"| {name} | {r['target']} | {what} | {', '.join(map(fmt, own))} | {', '.join(map(fmt, cross)) or '-'} | {', '.join(harn) if caught else '**not detected**'} |")
out += ["", f"Detected: {det} of {det + miss}."]
open(os.path.join(ROOT, "seeded", "MATRIX.md"), "w").write("\n".join(out) + "\n")
print(f"detected {det} / {det + miss}")
