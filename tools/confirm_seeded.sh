#!/bin/bash
# confirm_seeded.sh <PROP> <variant>  : confirms a sub-agent's seeded defect in a fresh scratch worktree
# (outside /repo and /verif), then stores it under /verif/seeded/<PROP><variant>/.
set -u
P=$1; V=$2
SRC=${SRCROOT:-/tmp/wt-out}/$P/$V
export GOFLAGS=-mod=mod GOPROXY=off GOSUMDB=off GOTOOLCHAIN=local
WT=$(mktemp -d /tmp/confirm-$P$V-XXXX)
rmdir $WT
git -C /repo worktree add -q --detach $WT HEAD || exit 2
cleanup() { git -C /repo worktree remove --force $WT 2>/dev/null; rm -rf $WT; }
trap cleanup EXIT
res() { echo "$1=$2"; }
demo_rel=$(head -1 $SRC/demo_path.txt | tr -d '\r\n ')
demo_file=$(ls $SRC/*_test.go 2>/dev/null | head -1)
demo_cmd=$(python3 -c "import json;print(json.load(open('$SRC/meta.json'))['demo_cmd'])")
demo_cmd=${demo_cmd#cd * && }
demo_cmd=$(printf %s "$demo_cmd" | sed -E 's/ +\(.*$//')  # drop a trailing free-text annotation
# 1. demo passes without the change
mkdir -p $WT/$(dirname $demo_rel); cp $demo_file $WT/$demo_rel
( cd $WT/src && timeout 1200 bash -c "$demo_cmd" ) > $WT.demo_clean.log 2>&1; c1=$?
# 2. apply, build, demo fails
git -C $WT apply $SRC/patch.diff || { echo "patch does not apply"; exit 3; }
( cd $WT/src && go build ./... ) > $WT.build.log 2>&1; b=$?
( cd $WT/src && timeout 1200 bash -c "$demo_cmd" ) > $WT.demo_mut.log 2>&1; c2=$?
# 3. full suite passes with the change (demo removed)
rm -f $WT/$demo_rel
( cd $WT/src && timeout 1700 go test -vet=off -count=1 -timeout 25m ./... ) > $WT.suite.log 2>&1; s=$?
echo "$P$V: build=$b demo_clean_exit=$c1 demo_mutant_exit=$c2 suite_exit=$s"
if [ $b -eq 0 ] && [ $c1 -eq 0 ] && [ $c2 -ne 0 ] && [ $s -eq 0 ]; then
  D=/verif/seeded/$P${TAG:-}$V; mkdir -p $D
  cp $SRC/patch.diff $D/patch.diff; cp $demo_file $D/; cp $SRC/demo_path.txt $D/
  python3 - "$SRC/meta.json" "$D/meta.json" "$demo_cmd" <<'PY'
import json,sys
m=json.load(open(sys.argv[1]))
out={"property":m.get("property"),"variant":m.get("variant"),"summary":m.get("summary"),"needs_to_manifest":m.get("needs_to_manifest"),
 "demo_cmd":sys.argv[3],
 "confirmed_by_me":{"where":"fresh scratch git worktree of /repo HEAD under /tmp (removed afterwards)","builds":True,"full_suite_passes_with_change":True,"demo_passes_without_change":True,"demo_fails_with_change":True,
  "ran":["go build ./...","<demo_cmd> on clean tree (exit 0)","git apply patch.diff; <demo_cmd> (exit != 0)","go test -vet=off -count=1 -timeout 25m ./... with the change (exit 0)"]}}
json.dump(out,open(sys.argv[2],"w"),indent=1)
PY
  echo "KEPT $D"
else
  echo "REJECTED $P$V (see $WT.*.log)"; tail -5 $WT.demo_clean.log $WT.demo_mut.log $WT.suite.log 2>/dev/null | tail -30
fi
rm -f $WT.demo_clean.log $WT.build.log
