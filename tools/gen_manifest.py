#!/usr/bin/env python3
"""Regenerates /verif/MANIFEST.json and /verif/notes.json from one table (kept by hand)."""
import json, os
ROOT = os.path.dirname(os.path.dirname(os.path.abspath(__file__)))
props = [json.loads(l)["id"] for l in open(os.path.join(ROOT, "properties.jsonl"))]

TECH = "SMT-based bounded symbolic execution of the repository's go/ssa (gosym: re-execution DFS, z3 5.1.0 live over stdin, int-wrap encoding); counterexamples replayed natively"
COMMON_TRUST = "Trusted: go/ssa construction (x/tools v0.29.0), gosym's SSA semantics, z3; environment models listed in the evidence file (badger = atomic key/value map, msgpack = ideal codec, signer/verifier test doubles where signatures are not the subject)."

CR = "Results hold in the symbolic (Dolev-Yao) crypto model of DESIGN §2.7: SHA-256 is a collision-free uninterpreted function (the real digest on concrete inputs), Ed25519 is unforgeable for the declared honest keys with exclusive ownership of signatures, base58 is a bijection. Counterexamples are replayed natively with real wallets, real SHA-256 and real signatures. " + COMMON_TRUST

claimed = {
 "C01": dict(
  text="validateLeaf (real ancestor-walker goroutine, real pourFunds/Supply/Drain, checkpoint read) is shown equivalent to the unbounded-integer predicate cp+inflow>=outflow for EVERY DAG shape with <=3 (quick) / <=4 (thorough) vertices after genesis, every tip, all canonical 64-bit amounts (currency<2^59 in shape harnesses, full width in the overflow harness), 3 symbolic wallets, with/without checkpoint entries and mixed data+spice tips; plus one-step checks of AddLeaf and CreateLeaf from every such ledger: only covered tips gain a child, failing tips are dropped with their index entry; the caller's context is live, already cancelled, or cancelled after the first poll (an interrupted validation must never confirm a parent).",
  ref="DESIGN.md §4 C01",
  bounds=["DAG: genesis + <=3 (quick) / <=4 (thorough) vertices, every parent choice (all shapes), every tip", "wallets A,B,C symbolic per vertex; amounts: all canonical pairs with currency < 2^59 (full 64-bit width in VH_C01_overflow)", "checkpoint: none, or symbolic entries for A and B", "walker / map iteration order: every permutation of maps with 2 entries inside repository loops and dag walks"],
  outside=["histories longer than the bound; more than 3 wallets; induction over histories is argued in DESIGN, not mechanised", "concurrent proposals (covered by C03 pair harnesses)", "truncation (C07)"]),
 "C03": dict(
  text="One-step checks from every ledger of the shape family (genesis + <=2/3 vertices, symbolic amounts) for AddLeaf (fresh / same vertex again / same transaction re-sealed / self-sealed / genesis-issued / empty) and CreateLeaf (fresh / replay / own wallet / genesis wallet / empty): afterwards no transaction hash in two live vertices, index[trx] = its holder, no dangling index entry, no vertex both live and checkpointed. The step harnesses run with a live, a cancelled and a late-cancelled caller context. Concurrent pairs CreateLeaf||CreateLeaf, CreateLeaf||AddLeaf, AddLeaf||AddLeaf of the same transaction under ALL schedules within 1-2 (quick) / 2-3 (thorough) preemptions.",
  ref="DESIGN.md §4 C03",
  bounds=["sequential: genesis + <=2 (quick) / <=3 (thorough) vertices, all shapes, symbolic amounts", "concurrent: 2 operations on a 2-vertex ledger, preemption bound 2 for CreateLeaf||CreateLeaf (quick), 1 for the other pairs; +1 in thorough", "scheduling points: channel ops, ab.mux, atomics, badger Update/View entry, first dag lock of each dag call"],
  outside=["badger Update/View are atomic (ErrConflict not modelled)", "more than two concurrent operations; schedules needing more preemptions", "after truncation (C07 harness re-submits moved vertices/transactions)"]),
 "C05": dict(
  text="Bounded symbolic execution of the real Supply/Transfer/Drain/New (go/ssa) with all four to six 64-bit operands symbolic; every assertion is an SMT query over ALL 2^64 values per operand (no sampling); loops are two constant iterations so no unwinding bound is needed.",
  ref="DESIGN.md §4 C05",
  bounds=["all canonical (sup < 10^18) operand triples, full 64-bit width; New: sup < 2*10^18"],
  outside=["non-canonical operands at the primitives (ingress harness covers admission)"]),
 "C06": dict(
  text="The real CalculateBalance (real walker goroutine, checkpoint read, pourFunds, Supply/Drain) returns exactly cp + inflow - outflow over the chosen tip and its ancestors in unbounded integers, an error iff that is negative (or an accumulator overflows), for every DAG shape in the bound, every queried wallet (including absent and self-transferring ones); read-only.",
  ref="DESIGN.md §4 C06",
  bounds=["DAG: genesis + <=3 (quick) / <=4 (thorough) vertices, all shapes, <=3 tips; which tip is used = nondeterministic map order", "3 symbolic wallets + an absent one; canonical amounts with currency < 2^59"],
  outside=["cross-node agreement beyond 'result is a function of the vertex set and tip' ", "larger DAGs"]),
 "C09": dict(
  text="After one AddLeaf / CreateLeaf step from every ledger of the shape family: every live vertex is stored under its own hash, has an edge from exactly its declared parents that are live, absent declared parents are checkpointed, the graph is acyclic (Kahn), rejected additions leave nothing; created vertices take tips as parents and weight max+1.",
  ref="DESIGN.md §4 C09",
  bounds=["genesis + <=2 (quick) / <=3 (thorough) vertices, all shapes, incoming parents case-split over all existing vertices"],
  outside=["self-authentication (hash/seal recomputation) is covered under C04", "declared weights of gossiped vertices are not validated by the code (observation)"]),
 "C10": dict(
  text="After one AddLeaf / CreateLeaf step from every ledger of the shape family with symbolic issuer/sealer choices (including self-sealed, genesis-issued and empty incoming items; proposals carrying spice, data or both): no non-genesis live vertex has issuer = sealer or issuer = genesis wallet or an empty transaction. VH_C10_load_vs_admission: a node that is being synced (LoadDag) while a self-sealed / genesis-issued / empty vertex is gossiped to it and a genesis-issued proposal arrives, followed by retry ticks of the orphan buffer, under all schedules within the preemption bound.",
  ref="DESIGN.md §4 C10",
  bounds=["genesis + <=2 (quick) / <=3 (thorough) vertices; addresses are 1-byte strings (the guards only compare for equality)"],
  outside=["address aliasing (one key, several address strings) belongs to C04", "more than one gossip delivery racing with LoadDag"]),
 "C07": dict(
  text="The real truncate (three ancestor walks with the real walker goroutine, fundsMemMap, storage writes, vertex deletion) runs with the cut depth made small (newHashAtDepth(1000) replaced by a harness-chosen depth; natively the history is padded so the production constant selects the same cut). Structure: for EVERY DAG shape with <=4 (quick) / <=5 (thorough) vertices and every depth the moved set is exactly the ancestry of one live vertex, every moved vertex/transaction stays readable, identical and indexed, nothing else leaves the DAG, a failed truncation moves nothing. Funds: on chains/diamonds with enumerated party patterns (incl. self-transfer), symbolic amounts and optional earlier checkpoint: checkpoint = previous + unbounded-integer net flow of exactly the moved set; balance of every wallet and the validation verdict of the tip are unchanged; moved vertices/transactions are refused on re-submission.",
  ref="DESIGN.md §4 C07",
  bounds=["structure: genesis + 4 (quick) / 5 (thorough) vertices, all shapes, every cut depth 1..n, concrete parties/amounts (vertex 1 is data-only, vertex 2 a self-transfer, so both special shapes are moved by deep cuts)", "funds: genesis + 3 vertices (chain or diamond), 4 party patterns per vertex incl. issuer = receiver, all canonical amounts with currency < 2^59, cut depth 1..2, with/without an earlier checkpoint (i.e. a second truncation), queried wallet A/B/C", "pre-state assumed to satisfy C01 (every confirmed vertex covered in its own history)"],
  outside=["the production cut depth 1000 and DAGs above the bound (replays pad to 1000)", "a data-only tip whose declared parent is moved by a very shallow cut is afterwards rejected for its missing parent (observation, needs a tip referring to a >1000-deep parent in production)", "balance seen through a side tip that does not descend from the cut", "truncation racing with proposals (truncate holds the ledger lock throughout)"]),
 "C13": dict(
  text="Every delivery order (with a duplicate and 0..2 retry ticks between deliveries) of a valid 3-vertex history in three shapes ends, after at most 40 further retry ticks, in the parents-first ledger: every vertex admitted exactly once with its declared edges, buffer drained; orphans are reported and parked once with an incremented counter, a dangling orphan is retried exactly 26 times and dropped; insert's bounds are decided for every counter value and the full buffer; the retry path re-runs the duplicate / sealed-transaction gates. The retry loop is the real getNext + addLeafMemorized driven by the harness instead of the 2 s ticker.",
  ref="DESIGN.md §4 C13",
  bounds=["3 vertices above genesis, 3 shapes x 6 delivery orders x duplicate yes/no x 0..2 ticks after each delivery", "creation timestamps: four concrete orders (increasing, equal, decreasing by 1 s and by 3 s, i.e. clock skew between sealing nodes), chosen per path", "VH_C13_late_invalid_parent: a parked child whose parent later fails validation is never admitted", "retry counter symbolic 0..100 in the counter lemma"],
  outside=["more than 3 vertices in flight; the 500-entry capacity is checked only at exactly 500 (pre-filled buffer)", "the ticker goroutine itself (its data race with insert belongs to C18)"]),
 "C19": dict(
  text="vertex<->protobuf and transaction<->protobuf mappings: for symbolic field contents (strings and bytes fields of length 0..3 incl. nil and empty, all 64-bit integers, any int64 nanosecond timestamp, 32 symbolic bytes per hash) every signed field comes back identical; the mapping's own validity predicate is decided (encode refuses only incomplete transactions, decode additionally refuses the exact epoch timestamp).",
  ref="DESIGN.md §4 C19",
  bounds=["string/bytes fields: nil, empty, or 1..3 arbitrary bytes; integers and timestamps full width"],
  outside=["msgpack pairs (vmihailenco Marshal / shamaton Unmarshal) are reflection/unsafe driven and cannot be executed symbolically: ASSUMED ideal", "the protobuf wire codec (modelled as a deep copy with empty bytes -> nil); fields longer than 3 bytes (the mappings have no length-dependent behaviour except the 32-byte hash conversions, which C15 covers)"]),
 "C20": dict(
  text="aeswrapper.Decrypt / Encrypt and fileoperations.SaveWallet / ReadWallet executed symbolically over an ideal AEAD: a file of ANY length 0..48 with any key length never panics and is an error unless it is literally what Encrypt produced under the same key; every truncation length, every single-byte change, every other key (all key bytes symbolic) and malformed passwords yield an error and the zero wallet; the round trip returns the identical key pair and address, whether the path held nothing, a shorter or a longer file before the save (os.WriteFile and os.OpenFile/Write/Sync/Close are modelled over one file table: O_TRUNC, O_APPEND and in-place overwrite).",
  ref="DESIGN.md §4 C20",
  bounds=["file length 0..48 symbolic with symbolic content; keys 16/24/32/other lengths, all bytes symbolic; plaintext 0..8 bytes (aeswrapper) or the wallet token (fileoperations)"],
  outside=["AES-GCM itself (ideal AEAD: Open succeeds iff key, nonce and ciphertext are literally a recorded Seal)", "GOB and PEM/x509 codecs (ideal codec)", "os file system faults"]),
 "C17": dict(
  text="SaveAwaitedTransaction / RemoveAwaitedTransaction / ReadTransactions (with set/add/read/remove, hex and bytes.Split executed from source, over a key/value model of bigcache) against a map-based model: every sequence of <=3 (quick) / <=4 (thorough) calls over 3 transactions whose issuer and receiver are symbolic among two addresses (issuer = receiver and shared receivers included), listing checked for both addresses; plus every pair save||save, save||remove, save||read with all four parties symbolic among the two addresses (shared receiver, shared issuer with different receivers, crossed, self-addressed), from a cache where a third transaction awaits / was saved and removed (emptied list left behind) / was never saved, under ALL schedules within 1 (quick) / 2 (thorough) preemptions.",
  ref="DESIGN.md §4 C17",
  bounds=["3 transactions, 2 addresses (symbolic), call sequences of length <=3 (quick) / <=4 (thorough)", "concurrent: 2 calls, preemption bound 1 (quick) / 2 (thorough), scheduling points at every cache call and mutex operation"],
  outside=["bigcache expiry AND capacity eviction (HardMaxCacheSize): the model never evicts, i.e. both count as 'expired' in the property's sense (observation in DESIGN §5: every list rewrite appends a new copy to a 1 MB shard, so long lists are evicted early); more than two overlapping calls", "msgpack encoding of the stored transaction (ideal codec)"]),
 "C15": dict(
  text="Every RPC handler of the notary (9), gossip (6 + the missing-parent fetch receive path) and webhooks (2) services is executed symbolically on every request shape the protobuf decoder can produce: every bytes field of symbolic length 0..40 (32 = hash size) with arbitrary content, strings empty or not, every sub-message / repeated element present or absent, collaborators (verifier, ledger, cache, flash memory, pipe, peers) answering nondeterministically. Every implicit Go panic condition (slice-to-array conversion, nil dereference, index, nil map ...) on every path is an SMT query; panics are identified by (function, source line text). A request refused at a verification step must have called no state-changing collaborator method.",
  ref="DESIGN.md §4 C15",
  bounds=["bytes fields 0..40 bytes, strings 0..1 bytes, repeated fields 0..2 elements (one possibly nil)", "one parent-fetch recursion level in the missing-parent path"],
  outside=["the protobuf wire decoder and gRPC internals; real collaborators (doubles answer nondeterministically, which over-approximates them)", "updateDag's receive loop needs a live gRPC stream: only its validate+map step is covered", "requests rejected AFTER all checks passed but after state changed are recorded as known findings (KNOWN_FINDINGS.json), partitioned by (handler, failing collaborator)"]),
 "C04": dict(
  text="(1) GetMessage of two transactions (one of fixed small shape with symbolic content, one of any shape with text fields 0..3 bytes) equal => time, amount and total text bound (field boundaries are NOT: known finding). (2) wallet.Helper.AddressToPubKey on addresses assembled from any version byte, any key length 0..34 and a checksum that is the genuine one, the one of the same key under the standard version byte, or any other four bytes (exhaustive split): accepted => 32-byte key, and two different accepted strings never carry the same key. (3) Helper.Verify under an honest key accepts only exactly the signed (message, digest, signature). (4) a vertex honestly signed by three real wallets (optionally countersigned, optionally self-addressed) and altered in any ONE of 21 ways (18 signed fields, 3 signatures extended by 1..2 trailing bytes; creation and sealing instants are inputs given as seconds + nanoseconds) is rejected by the real Vertex.verify; two multi-field alterations that pass are pinned as known findings.",
  ref="DESIGN.md §4 C04", note=CR,
  bounds=["text fields 0..3 bytes (t') / fixed 2+1+1+1 bytes (t); numeric fields full width", "addresses: version byte symbolic, key length 0..34, checksum genuine / re-versioned / any other 4 bytes; assumed: the 4-byte checksum does not collide between the two version readings of one key", "single-field mutations: 21 kinds, new value arbitrary of the same length (text) / full width (numbers, hashes, signatures)"],
  outside=["attacks on Ed25519 / SHA-256 themselves; base58 character-set errors", "mutations changing several fields at once beyond the two pinned classes", "admission beyond Vertex.verify (the ledger-level gates are C03/C09/C10)"]),
 "C12": dict(
  text="The real verifyGossipers, GossipVrx / gossipVertex and GossipTrx / gossipTransaction with the real wallet.Helper (optionally after the node has verified the honest entries of ANOTHER item in earlier gossip): for every pair of list entries drawn from nine adversary-assembled templates (an honest peer's genuine signature for another item, its parent-fetch signature over the bare item hash, garbage digests of length 31..33 and garbage signatures, this node's own entry with the correct public digest and a garbage signature, the adversary's own valid entry, a signature by the adversary's key under an honest address, ...) an honest address is in the verified set iff that node really signed (its address, this item); the receiving node still processes the vertex / stores the transaction and still forwards it to a peer that has not validly signed.",
  ref="DESIGN.md §4 C12", note=CR,
  bounds=["lists of 2 entries from 9 templates (81 lists), item hashes symbolic (32 bytes), 3 nodes (this node, an honest peer, the adversary)"],
  outside=["lists longer than 2; networks (C11); honest signatures on messages other than gossiper entries and parent-fetch requests"]),
 "C16": dict(
  text="The real notary handlers over the real cache.Hippocampus (bigcache model), the real dataprovider.Cache and the real wallet.Helper, ledger double sealing each transaction at most once: every sequence of <=3 (quick) / <=4 (thorough) calls from a menu of 15 honest and dishonest calls (propose contract / transfer / with a foreign issuer key; confirm genuine / countersigned by a stranger; reject by receiver / by stranger / forged; challenge + waiting; replayed challenge with another key; unissued challenge; balance by owner then by another key and with a garbage signature; confirm with a forged countersignature; stale-challenge replay after use; confirm carrying a copy of the issuer's signature as countersignature), from the states 'nothing proposed' and 'contract awaiting', against a reference state machine: sealed only by an issuer-signed transfer, a receiver-countersigned confirm or a receiver-signed reject of an awaiting contract, at most once; refused calls leave the awaiting list unchanged; reads answer only for the owner's key and a server-issued challenge.",
  ref="DESIGN.md §4 C16", note=CR,
  bounds=["call sequences of length 3 (quick) / 4 (thorough) over 15 call kinds, 2 start states", "one contract and one transfer, three wallets"],
  outside=["challenge expiry (no timer fires within a run); concurrent duplicate calls; the static balance request can be replayed by whoever captured a genuine one (observation)", "ledger behaviour (double implementing C03's contract)"]),
 "C14": dict(
  text="The real StreamDAG goroutine (real ancestor walker, 100-slot channel) feeds the real LoadDag of a fresh book for EVERY DAG shape with <=4 (quick) / <=5 (thorough) vertices after genesis and every tip / ancestor iteration order: the target is loaded, holds exactly the peer's vertices, parent links, transaction index and genesis wallet, passes the C03/C09 structure checks, answers balance queries identically (symbolic amounts on chains) and gives the same verdict on a follow-up gossip vertex. VH_C14_weight_window: after syncing, a vertex is admitted by the loaded node iff the source admits it, over declared weights at and around the truncation mark (one divergence is a pinned known finding). Every single corruption of a valid stream (vertex repeated, transaction carried by two vertices, vertex missing, second self-sealed vertex, empty transaction, dangling parent reference, empty stream; every position) leaves the target not loaded with a reported cause.",
  ref="DESIGN.md §4 C14",
  bounds=["source: genesis + 4 (quick) / 5 (thorough) vertices, all shapes, map iteration orders of maps with <=3 entries", "corruptions: 7 kinds x every position on all 4-vertex shapes"],
  outside=["the gRPC transport (C15/C19 cover the receive path and the mapping)", "a truncated source cannot be synced from: known finding", "LoadDag does not restore the weight mark of the source (latest accepted weight starts at the maximum loaded weight): the loaded node accepts a low declared weight the source refuses: known finding", "LoadDag does not verify signatures (honest-peer assumption of the protocol)", "LoadDag racing with admissions (C10 covers the identity rules in that race)"]),
 "C02": dict(
  text="Ledgers built by the REAL operations from a genesis ledger: (chain) 3 (quick) / 4 (thorough) successive CreateLeaf proposals with enumerated party patterns (A->B, B->A, A->A, B->C) and symbolic amounts: on the confirmed set (live vertices with a child) no wallet has spent more than it received (unbounded integers over the harness' own record of what was offered) and the balances the node reports for all wallets add up to the genesis supply; each proposal with or without data (a contract that also moves spice); (gossip chain) the same history delivered by AddLeaf from another node under a live, cancelled or late-cancelled context; (merge) two sibling spends, one proposed locally and one delivered by gossip from another node, then a proposal merging both tips: each confirmed spend is covered in its own history (must hold) while the union may overdraw (pinned known finding).",
  ref="DESIGN.md §4 C02",
  bounds=["chain and gossip chain: 3 (quick) / 4 (thorough) operations, 4 party patterns each, with/without data, 3 context kinds per delivery, all canonical amounts with currency < 2^59", "merge: one 3-operation scenario with symbolic amounts"],
  outside=["more nodes / longer interleavings of proposals and gossip (the two-node case is the merge scenario: the second node's vertex arrives by AddLeaf)", "truncation inside the history (C07 checks the checkpoint arithmetic)", "trusted sealing nodes"]),
 "C08": dict(
  text="Every consumer of the ancestor walker (CalculateBalance, ReadDAGTransactionsByAddress, validateLeaf, AddLeaf, CreateLeaf, StreamDAG with one and with two tips, truncate) runs against the REAL producer goroutine of heimdalr/dag (which holds the graph read lock while blocked on its send) under the engine's scheduler: ALL schedules within 2 (quick) / 3 (thorough) preemptions, ledgers with 1..3 (truncate: 2..4) ancestors, the caller's context cancelled after 0..n+1 polls, signature verification failing at any ancestor (symbolic), every truncation depth. End-state verdicts: no goroutine blocked forever after the operation returned (leak), no deadlock, and a graph write plus the ledger lock complete afterwards. The background truncation loop is driven with an honest, an above-the-mark and a maximal declared weight followed by 55 admissions. A DAG stream consumed while a proposal writes is searched for lock cycles (known finding).",
  ref="DESIGN.md §4 C08",
  technique=TECH + "; goroutine schedules enumerated exhaustively up to a preemption bound (scheduling points: channel operations, select, ledger lock, atomics, first dag lock of each dag call, storage calls)",
  bounds=["1..3 ancestors below the tip (2..4 for truncate), cancellation point 0..n+1, preemption bound 2 (quick) / 3 (thorough)", "truncate depth 1..n via the harness redirect of newHashAtDepth", "stream-vs-writer: bug-hunting search (not exhaustive) because of the known lock cycle"],
  outside=["schedules needing more preemptions; longer histories; more than one concurrent operation besides the walker goroutines (pairs of operations are C03/C18)", "badger and the logger are models / doubles"]),
 "C18": dict(
  text="Workloads of concurrent ledger operations on a loaded node (two proposals + one gossip delivery; a proposal against balance / vertex / history / transaction reads; a DAG stream against a balance read; a truncation against lock-free and locked reads and a proposal; the background truncation loop reacting to an admitted vertex while proposals arrive; the orphan buffer's retry ticker against parking; a truncation and a proposal against the retry ticker with a non-empty orphan buffer) are executed on the real code by the engine's scheduler with a happens-before tracker: vector clocks over goroutine start, channel operations, mutex release/acquire, atomic store->load and the atomic storage models; every load/store of a heap cell (whole-struct accesses also count as accesses to each field) and every map operation is recorded; two accesses to one cell, one a write, unordered by happens-before in any explored schedule = race. Candidates are confirmed natively by repeating the workload under `go test -race` (real race detector).",
  ref="DESIGN.md §4 C18",
  technique="happens-before (vector clock) analysis of the repository's go/ssa executed under gosym's scheduler over a bounded number of schedules; SMT decides the data-dependent branches (symbolic amounts); candidates confirmed with the Go race detector",
  bounds=["7 workloads, 2-4 goroutines each plus the dependency's walker goroutines; up to 1500 (quick) / 20000 (thorough) schedules per workload (bounded search, not exhaustive: every explored schedule stands for its happens-before class)"],
  outside=["accesses inside badger, bigcache and gRPC (their models are atomic sections by assumption)", "workloads other than the listed ones; the gossip node's peer map (gossiper.nodes is iterated without the lock in processLackingParent: observation, gossip package not part of these workloads)", "before the DAG is loaded (CreateGenesis / LoadDag write dagLoaded under the lock while DagLoaded reads it without)"]),
 "C11": dict(
  text="A virtual network of REAL gossiper structs (real GossipVrx / GossipTrx / gossipVertex / gossipTransaction / verifyGossipers / sendToAccountant / processLackingParent / GetVertex, real cache.Flashback over the bigcache model); peers are in-package clients that hand a deep copy of the message to the peer's real handler inside the goroutine the code starts per peer, so delivery order = goroutine schedule. One vertex: EVERY connected topology on 3 nodes, every origin, ALL delivery orders within 1 (quick) / 2 (thorough) preemptions; all 38 connected 4-node topologies x 4 origins x one arbitrarily delayed directed link; the 4-cycle (with/without chord) under every order of the forwarding goroutines (bounded in quick, exhaustive in thorough): every node's ledger admits it exactly once, the origin's ledger is never offered its own vertex, nobody forwards before its own ledger accepted, at most n(n-1) messages. Awaited transaction: gossiped on every 3-node topology (one delayed link), then the vertex sealing it, then a late duplicate of the first message: stored once per node, sent at most once per link; two copies reaching a node together (4 nodes, 1 preemption). Parent + child on 3 nodes (bounded search): nothing admitted twice, forward-after-accept; delivery of the child when it overtakes its parent is the pinned known finding.",
  ref="DESIGN.md §4 C11",
  technique=TECH + "; message delivery orders = goroutine schedules enumerated by the engine's scheduler",
  bounds=["n = 3 all graphs exhaustively at preemption bound 1 (quick) / 2 (thorough)", "n = 4: all connected graphs x origin x (no or one delayed directed link), otherwise one fixed delivery order", "4-ring: 3000 schedules (quick) / all ~300000 non-preemptive schedules (thorough)", "transactions: 3 nodes all graphs (delayed link), 4-node kite at preemption bound 1", "two items: 3 nodes, budget 8000 schedules (not exhaustive)"],
  outside=["ledger double (contract of C03/C13), transparent signatures (forgery: C12), no recent-hash expiry within a run (20 s window), gRPC delivers or returns an error", "n >= 5, more than two items in flight"]),
}

NA_DEFAULT = "check not built yet in this session; see DESIGN.md §6 build order"
na = {}

manifest = {
 "version": 1,
 "setup_cmd": "cd /verif/engine && GOFLAGS=-mod=mod GOPROXY=off GOSUMDB=off GOTOOLCHAIN=local go build -o ../bin/gosym .",
 "hooks": {
  "guard": "verif",
  "enable": "-tags verif plus go/packages Overlay / go test -overlay of /verif/harness/<pkg>/*.go (no hook code is committed to /repo)",
  "baseline_off_cmd": "cd /repo/src && GOFLAGS=-mod=mod GOPROXY=off GOSUMDB=off go test -vet=off -count=1 -timeout 25m ./...",
  "source_commits": [],
  "add_only": True,
 },
 "engines": [{"name": "gosym", "path": "/verif/engine", "serves_properties": sorted(claimed),
   "kind_free_text": "symbolic executor for go/ssa with an SMT (z3) back end, cooperative scheduler for goroutines/channels/mutexes; harnesses are in-package Go functions overlaid at load time"}],
 "checks": [], "not_applicable": [],
 "notes": "exit 0 = held; exit 1 + VIOLATION line = counterexample (replayed natively); exit 2 = machinery inconclusive (never a pass)",
}
notes = {}
for pid in props:
    if pid in claimed:
        c = claimed[pid]
        manifest["checks"].append({
         "property_id": pid,
         "quick_cmd": f"bin/check {pid} --tier quick",
         "thorough_cmd": f"bin/check {pid} --tier thorough",
         "evidence_file": f"/verif/evidence/{pid}.json",
         "replay_cmd_template": f"bin/check {pid} --replay {{path}}",
         "engine": "gosym",
         "level_claimed": {"category": "model_checking", "text": c["text"], "design_ref": c["ref"]},
         "level_note": c.get("note", COMMON_TRUST),
         "technique": c.get("technique", TECH),
        })
        notes[pid] = {"Bounds": c["bounds"], "Outside": c["outside"], "Assumptions": c.get("assumptions", ["environment models as listed under stubs_used; see DESIGN.md §2.6"])}
    else:
        manifest["not_applicable"].append({"property_id": pid, "reason": na.get(pid, NA_DEFAULT)})
json.dump(manifest, open(os.path.join(ROOT, "MANIFEST.json"), "w"), indent=1)
json.dump(notes, open(os.path.join(ROOT, "notes.json"), "w"), indent=1)
print("claimed:", sorted(claimed), "n/a:", len(manifest["not_applicable"]))
