#!/usr/bin/env python3
"""Regenerates /verif/MANIFEST.json and /verif/notes.json from one table (kept by hand)."""
import json, os
ROOT = os.path.dirname(os.path.dirname(os.path.abspath(__file__)))
props = [json.loads(l)["id"] for l in open(os.path.join(ROOT, "properties.jsonl"))]

TECH = "SMT-based bounded symbolic execution of the repository's go/ssa (gosym: re-execution DFS, z3 5.1.0 live over stdin, int-wrap encoding); counterexamples replayed natively"
COMMON_TRUST = "Trusted: go/ssa construction (x/tools v0.29.0), gosym's SSA semantics, z3; environment models listed in the evidence file (badger = atomic key/value map, msgpack = ideal codec, signer/verifier test doubles where signatures are not the subject)."

claimed = {
 "C01": dict(
  text="validateLeaf (real ancestor-walker goroutine, real pourFunds/Supply/Drain, checkpoint read) is shown equivalent to the unbounded-integer predicate cp+inflow>=outflow for EVERY DAG shape with <=3 (quick) / <=4 (thorough) vertices after genesis, every tip, all canonical 64-bit amounts (currency<2^59 in shape harnesses, full width in the overflow harness), 3 symbolic wallets, with/without checkpoint entries and mixed data+spice tips; plus one-step checks of AddLeaf and CreateLeaf from every such ledger: only covered tips gain a child, failing tips are dropped with their index entry.",
  ref="DESIGN.md §3 C01",
  bounds=["DAG: genesis + <=3 (quick) / <=4 (thorough) vertices, every parent choice (all shapes), every tip", "wallets A,B,C symbolic per vertex; amounts: all canonical pairs with currency < 2^59 (full 64-bit width in VH_C01_overflow)", "checkpoint: none, or symbolic entries for A and B", "walker / map iteration order: every permutation of maps with 2 entries inside repository loops and dag walks"],
  outside=["histories longer than the bound; more than 3 wallets; induction over histories is argued in DESIGN, not mechanised", "concurrent proposals (covered by C03 pair harnesses)", "truncation (C07)"]),
 "C03": dict(
  text="One-step checks from every ledger of the shape family (genesis + <=2/3 vertices, symbolic amounts) for AddLeaf (fresh / same vertex again / same transaction re-sealed / self-sealed / genesis-issued / empty) and CreateLeaf (fresh / replay / own wallet / genesis wallet / empty): afterwards no transaction hash in two live vertices, index[trx] = its holder, no dangling index entry, no vertex both live and checkpointed. Concurrent pairs CreateLeaf||CreateLeaf, CreateLeaf||AddLeaf, AddLeaf||AddLeaf of the same transaction under ALL schedules within 1-2 (quick) / 2-3 (thorough) preemptions.",
  ref="DESIGN.md §3 C03",
  bounds=["sequential: genesis + <=2 (quick) / <=3 (thorough) vertices, all shapes, symbolic amounts", "concurrent: 2 operations on a 2-vertex ledger, preemption bound 2 for CreateLeaf||CreateLeaf (quick), 1 for the other pairs; +1 in thorough", "scheduling points: channel ops, ab.mux, atomics, badger Update/View entry, first dag lock of each dag call"],
  outside=["badger Update/View are atomic (ErrConflict not modelled)", "more than two concurrent operations; schedules needing more preemptions", "after truncation (C07 harness re-submits moved vertices/transactions)"]),
 "C05": dict(
  text="Bounded symbolic execution of the real Supply/Transfer/Drain/New (go/ssa) with all four to six 64-bit operands symbolic; every assertion is an SMT query over ALL 2^64 values per operand (no sampling); loops are two constant iterations so no unwinding bound is needed.",
  ref="DESIGN.md §3 C05",
  bounds=["all canonical (sup < 10^18) operand triples, full 64-bit width; New: sup < 2*10^18"],
  outside=["non-canonical operands at the primitives (ingress harness covers admission)"]),
 "C06": dict(
  text="The real CalculateBalance (real walker goroutine, checkpoint read, pourFunds, Supply/Drain) returns exactly cp + inflow - outflow over the chosen tip and its ancestors in unbounded integers, an error iff that is negative (or an accumulator overflows), for every DAG shape in the bound, every queried wallet (including absent and self-transferring ones); read-only.",
  ref="DESIGN.md §3 C06",
  bounds=["DAG: genesis + <=3 (quick) / <=4 (thorough) vertices, all shapes, <=3 tips; which tip is used = nondeterministic map order", "3 symbolic wallets + an absent one; canonical amounts with currency < 2^59"],
  outside=["cross-node agreement beyond 'result is a function of the vertex set and tip' ", "larger DAGs"]),
 "C09": dict(
  text="After one AddLeaf / CreateLeaf step from every ledger of the shape family: every live vertex is stored under its own hash, has an edge from exactly its declared parents that are live, absent declared parents are checkpointed, the graph is acyclic (Kahn), rejected additions leave nothing; created vertices take tips as parents and weight max+1.",
  ref="DESIGN.md §3 C09",
  bounds=["genesis + <=2 (quick) / <=3 (thorough) vertices, all shapes, incoming parents case-split over all existing vertices"],
  outside=["self-authentication (hash/seal recomputation) is covered under C04", "declared weights of gossiped vertices are not validated by the code (observation)"]),
 "C10": dict(
  text="After one AddLeaf / CreateLeaf step from every ledger of the shape family with symbolic issuer/sealer choices (including self-sealed, genesis-issued and empty incoming items): no non-genesis live vertex has issuer = sealer or issuer = genesis wallet or an empty transaction.",
  ref="DESIGN.md §3 C10",
  bounds=["genesis + <=2 (quick) / <=3 (thorough) vertices; addresses are 1-byte strings (the guards only compare for equality)"],
  outside=["address aliasing (one key, several address strings) belongs to C04", "LoadDag racing with admissions"]),
}

NA_DEFAULT = "check not built yet in this session; see DESIGN.md §6 build order"
na = {}

manifest = {
 "version": 1,
 "setup_cmd": "cd /verif/engine && GOFLAGS=-mod=mod GOPROXY=off GOSUMDB=off GOTOOLCHAIN=local go build -o ../bin/gosym .",
 "hooks": {
  "guard": "verif",
  "enable": "-tags verif plus go/packages Overlay / go test -overlay of /verif/harness/<pkg>/*.go (no hook code is committed to /repo)",
  "baseline_off_cmd": "cd /repo/src && GOFLAGS=-mod=mod GOPROXY=off GOSUMDB=off go test -vet=off -count=1 -timeout 25m ./...",
  "source_commits": [],
  "add_only": True,
 },
 "engines": [{"name": "gosym", "path": "/verif/engine", "serves_properties": sorted(claimed),
   "kind_free_text": "symbolic executor for go/ssa with an SMT (z3) back end, cooperative scheduler for goroutines/channels/mutexes; harnesses are in-package Go functions overlaid at load time"}],
 "checks": [], "not_applicable": [],
 "notes": "exit 0 = held; exit 1 + VIOLATION line = counterexample (replayed natively); exit 2 = machinery inconclusive (never a pass)",
}
notes = {}
for pid in props:
    if pid in claimed:
        c = claimed[pid]
        manifest["checks"].append({
         "property_id": pid,
         "quick_cmd": f"bin/check {pid} --tier quick",
         "thorough_cmd": f"bin/check {pid} --tier thorough",
         "evidence_file": f"/verif/evidence/{pid}.json",
         "replay_cmd_template": f"bin/check {pid} --replay {{path}}",
         "engine": "gosym",
         "level_claimed": {"category": "model_checking", "text": c["text"], "design_ref": c["ref"]},
         "level_note": c.get("note", COMMON_TRUST),
         "technique": c.get("technique", TECH),
        })
        notes[pid] = {"Bounds": c["bounds"], "Outside": c["outside"], "Assumptions": c.get("assumptions", ["environment models as listed under stubs_used; see DESIGN.md §2.6"])}
    else:
        manifest["not_applicable"].append({"property_id": pid, "reason": na.get(pid, NA_DEFAULT)})
json.dump(manifest, open(os.path.join(ROOT, "MANIFEST.json"), "w"), indent=1)
json.dump(notes, open(os.path.join(ROOT, "notes.json"), "w"), indent=1)
print("claimed:", sorted(claimed), "n/a:", len(manifest["not_applicable"]))
