#!/bin/bash
# trymutant.sh <patch.diff> <check-id>... : applies the patch in a scratch worktree and runs the quick checks there.
P=$(realpath $1); shift
WT=$(mktemp -d /tmp/try-XXXX); rmdir $WT
git -C /repo worktree add -q --detach $WT HEAD || exit 2
if ! git -C $WT apply $P; then echo "PATCH DOES NOT APPLY"; git -C /repo worktree remove --force $WT; exit 3; fi
for id in "$@"; do
  GOSYM_CEX_DIR=/tmp/try-cex GOSYM_REPO=$WT timeout 2400 /verif/bin/gosym check $id --tier quick --evidence /tmp/try-ev.json 2>&1 | grep -v "^KNOWN" | tail -3 | cut -c1-220
done
git -C /repo worktree remove --force $WT; rm -rf $WT /tmp/try-ev.json
